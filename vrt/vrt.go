// Package vrt is the harness runtime. Harness functions call these
// intrinsics; the symbolic interpreter (engine/interp) recognises them by
// name and gives them their symbolic meaning. The bodies below are the
// *native* meaning used when a counterexample is replayed against the real,
// compiled code: every symbolic input is read from the counterexample file
// named by $VRT_CEX (JSON: {"vals": {"x#0": "5", ...}, "ufs": {"F(5)": "7"}}).
package vrt

import (
	"encoding/json"
	"fmt"
	"os"
	"reflect"
	"strconv"
	"strings"
	"sync"
)

type cex struct {
	Vals map[string]string `json:"vals"`
	UFs  map[string]string `json:"ufs"`
}

var (
	mu      sync.Mutex
	loaded  bool
	cx      cex
	counter = map[string]int{}
	// Failures collects failed assertion labels of a native run.
	Failures []string
	Covered  = map[string]bool{}
)

// Reset clears per-run state (native replay only).
func Reset() {
	mu.Lock()
	defer mu.Unlock()
	counter = map[string]int{}
	Failures = nil
	Covered = map[string]bool{}
	loaded = false
}

func load() {
	if loaded {
		return
	}
	loaded = true
	cx = cex{Vals: map[string]string{}, UFs: map[string]string{}}
	p := os.Getenv("VRT_CEX")
	if p == "" {
		return
	}
	b, err := os.ReadFile(p)
	if err != nil {
		panic("vrt: cannot read " + p + ": " + err.Error())
	}
	if err := json.Unmarshal(b, &cx); err != nil {
		panic("vrt: bad counterexample file: " + err.Error())
	}
	if cx.Vals == nil {
		cx.Vals = map[string]string{}
	}
	if cx.UFs == nil {
		cx.UFs = map[string]string{}
	}
}

func next(base string) string {
	n := counter[base]
	counter[base] = n + 1
	return base + "#" + strconv.Itoa(n)
}

func lookup(base string) (string, bool) {
	mu.Lock()
	defer mu.Unlock()
	load()
	v, ok := cx.Vals[next(base)]
	return v, ok
}

func parseInt(s string) int64 {
	if v, err := strconv.ParseInt(s, 0, 64); err == nil {
		return v
	}
	u, _ := strconv.ParseUint(s, 0, 64)
	return int64(u)
}

// Int is an arbitrary int.
func Int(name string) int {
	if v, ok := lookup(name); ok {
		return int(parseInt(v))
	}
	return 0
}

// Bool is an arbitrary bool.
func Bool(name string) bool {
	if v, ok := lookup(name); ok {
		return v == "true" || v == "1"
	}
	return false
}

// Choice forks the exploration into n branches 0..n-1.
func Choice(name string, n int) int {
	if v, ok := lookup(name); ok {
		return int(parseInt(v))
	}
	return 0
}

// Flip is Choice(name, 2) == 1.
func Flip(name string) bool { return Choice(name, 2) == 1 }

// Param is a concrete parameter of the job (bounds, configuration).
func Param(name string, def int) int {
	mu.Lock()
	defer mu.Unlock()
	load()
	if v, ok := cx.Vals["param:"+name]; ok {
		return int(parseInt(v))
	}
	return def
}

// Str is an arbitrary string of at most max bytes.
func Str(name string, max int) string {
	if v, ok := lookup(name); ok {
		s, err := strconv.Unquote(v)
		if err == nil {
			return s
		}
		return v
	}
	return ""
}

// Fresh is an arbitrary value of type T (every scalar leaf symbolic).
func Fresh[T any](name string) T {
	var x T
	mu.Lock()
	n := counter["fresh:"+name]
	counter["fresh:"+name] = n + 1
	load()
	mu.Unlock()
	fill(reflect.ValueOf(&x).Elem(), name+"#"+strconv.Itoa(n))
	return x
}

func fill(v reflect.Value, path string) {
	get := func() (string, bool) {
		mu.Lock()
		defer mu.Unlock()
		s, ok := cx.Vals[path]
		return s, ok
	}
	switch v.Kind() {
	case reflect.Bool:
		if s, ok := get(); ok {
			setUnexp(v, reflect.ValueOf(s == "true" || s == "1").Convert(v.Type()))
		}
	case reflect.Int, reflect.Int8, reflect.Int16, reflect.Int32, reflect.Int64:
		if s, ok := get(); ok {
			setUnexp(v, reflect.ValueOf(parseInt(s)).Convert(v.Type()))
		}
	case reflect.Uint, reflect.Uint8, reflect.Uint16, reflect.Uint32, reflect.Uint64, reflect.Uintptr:
		if s, ok := get(); ok {
			setUnexp(v, reflect.ValueOf(uint64(parseInt(s))).Convert(v.Type()))
		}
	case reflect.Float32, reflect.Float64:
		if s, ok := get(); ok {
			f, _ := strconv.ParseFloat(s, 64)
			setUnexp(v, reflect.ValueOf(f).Convert(v.Type()))
		}
	case reflect.String:
		if s, ok := get(); ok {
			if u, err := strconv.Unquote(s); err == nil {
				s = u
			}
			setUnexp(v, reflect.ValueOf(s).Convert(v.Type()))
		}
	case reflect.Struct:
		for i := 0; i < v.NumField(); i++ {
			fill(v.Field(i), path+"."+v.Type().Field(i).Name)
		}
	case reflect.Array:
		for i := 0; i < v.Len(); i++ {
			fill(v.Index(i), path+"."+strconv.Itoa(i))
		}
	case reflect.Pointer:
		// a fresh pointer is a pointer to a fresh object
		p := reflect.New(v.Type().Elem())
		fill(p.Elem(), path+".*")
		setUnexp(v, p)
	case reflect.Slice:
		s := reflect.MakeSlice(v.Type(), 1, 1)
		fill(s.Index(0), path+".0")
		setUnexp(v, s)
	case reflect.Interface:
		if v.NumMethod() == 0 {
			if s, ok := get(); ok {
				setUnexp(v, reflect.ValueOf(int(parseInt(s))))
			} else {
				setUnexp(v, reflect.ValueOf(int(0)))
			}
		}
	case reflect.Map:
		setUnexp(v, reflect.MakeMap(v.Type()))
	}
}

// Assume restricts the inputs considered. Natively a violated assumption
// means the counterexample does not apply: the run is abandoned.
func Assume(c bool) {
	if !c {
		panic(AssumeFailed{})
	}
}

type AssumeFailed struct{}

// Assert states the property. Natively a failure is recorded.
func Assert(label string, c bool) {
	if !c {
		mu.Lock()
		Failures = append(Failures, label)
		mu.Unlock()
	}
}

// Cover marks a point that must be reachable (vacuity witness).
func Cover(label string) {
	mu.Lock()
	Covered[label] = true
	mu.Unlock()
}

func ufKey(name string, args ...int) string {
	var ps []string
	for _, a := range args {
		ps = append(ps, strconv.Itoa(a))
	}
	return name + "(" + strings.Join(ps, ",") + ")"
}

func uf(name string, args ...int) (string, bool) {
	mu.Lock()
	defer mu.Unlock()
	load()
	v, ok := cx.UFs[ufKey(name, args...)]
	return v, ok
}

// UF1 is an arbitrary (uninterpreted) function int -> int.
func UF1(name string, x int) int {
	if v, ok := uf(name, x); ok {
		return int(parseInt(v))
	}
	return 0
}

// UF2 is an arbitrary function (int, int) -> int.
func UF2(name string, x, y int) int {
	if v, ok := uf(name, x, y); ok {
		return int(parseInt(v))
	}
	return 0
}

// Pred1 is an arbitrary predicate on ints.
func Pred1(name string, x int) bool {
	if v, ok := uf(name, x); ok {
		return v == "true" || v == "1"
	}
	return false
}

// Pred2 is an arbitrary binary predicate on ints.
func Pred2(name string, x, y int) bool {
	if v, ok := uf(name, x, y); ok {
		return v == "true" || v == "1"
	}
	return false
}

// Same is deep structural equality of two values of the same type (pointer
// identity for pointers, element-wise for structs and arrays).
func Same[T any](a, b T) bool {
	return same(reflect.ValueOf(&a).Elem(), reflect.ValueOf(&b).Elem())
}

func same(a, b reflect.Value) bool {
	switch a.Kind() {
	case reflect.Struct:
		for i := 0; i < a.NumField(); i++ {
			if !same(a.Field(i), b.Field(i)) {
				return false
			}
		}
		return true
	case reflect.Array:
		for i := 0; i < a.Len(); i++ {
			if !same(a.Index(i), b.Index(i)) {
				return false
			}
		}
		return true
	case reflect.Slice:
		if a.IsNil() != b.IsNil() || a.Len() != b.Len() || a.Cap() != b.Cap() {
			return false
		}
		return a.Len() == 0 && a.Cap() == 0 || a.Pointer() == b.Pointer()
	case reflect.Pointer, reflect.Map, reflect.Chan, reflect.Func, reflect.UnsafePointer:
		return a.Pointer() == b.Pointer()
	case reflect.Interface:
		if a.IsNil() || b.IsNil() {
			return a.IsNil() == b.IsNil()
		}
		if a.Elem().Type() != b.Elem().Type() {
			return false
		}
		return same(a.Elem(), b.Elem())
	case reflect.Bool:
		return a.Bool() == b.Bool()
	case reflect.Int, reflect.Int8, reflect.Int16, reflect.Int32, reflect.Int64:
		return a.Int() == b.Int()
	case reflect.Uint, reflect.Uint8, reflect.Uint16, reflect.Uint32, reflect.Uint64, reflect.Uintptr:
		return a.Uint() == b.Uint()
	case reflect.Float32, reflect.Float64:
		return a.Float() == b.Float() || (a.Float() != a.Float() && b.Float() != b.Float())
	case reflect.Complex64, reflect.Complex128:
		return a.Complex() == b.Complex()
	case reflect.String:
		return a.String() == b.String()
	}
	return false
}

// Panics reports whether f panics.
func Panics(f func()) (p bool) {
	defer func() {
		if r := recover(); r != nil {
			if _, ok := r.(AssumeFailed); ok {
				panic(r)
			}
			p = true
		}
	}()
	f()
	return false
}

// Named gives a value a fresh symbolic name (y with y == v assumed), so that
// an equality that would otherwise be decided by term identity is handed to
// the solver. Natively it is the identity.
func Named(name string, v int) int { return v }

// B2I is 1 for true and 0 for false.
func B2I(b bool) int {
	if b {
		return 1
	}
	return 0
}

// Run executes a harness natively and reports the failed assertion labels.
// ok=false means an assumption did not hold (counterexample not applicable).
func Run(h func()) (fails []string, applicable bool, panicked any) {
	Reset()
	applicable = true
	func() {
		defer func() {
			if r := recover(); r != nil {
				if _, ok := r.(AssumeFailed); ok {
					applicable = false
					return
				}
				panicked = r
			}
		}()
		h()
	}()
	mu.Lock()
	defer mu.Unlock()
	return append([]string(nil), Failures...), applicable, panicked
}

func Describe(fails []string, applicable bool, panicked any) string {
	return fmt.Sprintf("fails=%v applicable=%v panic=%v", fails, applicable, panicked)
}

// ---- goroutine harnesses (BMC). The interpreter gives these their model
// meaning; the native bodies below serve replays (see bmc_native.go).

// Go registers an environment goroutine.
func Go(name string, f func()) { nativeGo(name, f) }

// Final states a condition that must hold whenever nothing can move any more.
func Final(label string, f func() bool) { nativeFinal(label, f) }

// Invariant states a condition that must hold in every reachable state.
func Invariant(label string, f func() bool) { nativeInvariant(label, f) }

// Closed reports whether the channel has been closed (state predicate).
func Closed(ch any) bool { return nativeClosed(ch) }

// ChanLen is the number of buffered elements (state predicate).
func ChanLen(ch any) int { return reflectLen(ch) }

// LibExited reports whether every library goroutine has returned.
func LibExited() bool { return nativeLibExited() }

// AllLibExited is LibExited including goroutines declared as daemons.
func AllLibExited() bool { daemonOK = false; defer func() { daemonOK = true }(); return nativeLibExited() }

// Exited reports whether the named environment goroutine has returned.
func Exited(name string) bool { return nativeExited(name) }

// Daemon declares library goroutines started by functions with this name prefix
// as permitted to outlive the run (e.g. a pacer that lives until cancel).
func Daemon(prefix string) { daemonOK = true }

// Now is the virtual clock.
func Now() int { return nativeNow() }

// Straight-line boolean connectives: unlike && and || they do not branch, so
// the symbolic executor builds one formula instead of forking.
func And(a, b bool) bool     { return a && b }
func Or(a, b bool) bool      { return a || b }
func Not(a bool) bool        { return !a }
func Implies(a, b bool) bool { return !a || b }

// All / Any: conjunction / disjunction of the arguments without branching.
func All(cs ...bool) bool {
	for _, c := range cs {
		if !c {
			return false
		}
	}
	return true
}
func Any(cs ...bool) bool {
	for _, c := range cs {
		if c {
			return true
		}
	}
	return false
}

// Ite is "if c then a else b" without branching.
func Ite[T any](c bool, a, b T) T {
	if c {
		return a
	}
	return b
}

// Arena declares that objects of type T allocated by goroutines inside
// functions whose name contains fn are drawn from a bounded pool of n slots
// (needed when such objects are linked into shared data structures). Natively
// a no-op.
func Arena[T any](n int, fn string) {}

// TrySend sends v on ch and reports whether the send completed; a send on a
// closed channel reports false instead of panicking.
func TrySend[T any](ch chan<- T, v T) (ok bool) {
	defer func() {
		if recover() != nil {
			ok = false
		}
	}()
	ch <- v
	return true
}

// OffsetOf is the byte offset of *field inside *base (two pointers into the
// same object), e.g. OffsetOf(&x, &x.In.B). Under the symbolic executor's
// layout-symbolic mode it is the term the Go layout rule yields.
func OffsetOf(base, field any) int {
	return int(reflect.ValueOf(field).Pointer() - reflect.ValueOf(base).Pointer())
}
