package vrt

import (
	"reflect"
	"unsafe"
)

// setUnexp sets v (possibly an unexported field) to x.
func setUnexp(v reflect.Value, x reflect.Value) {
	if v.CanSet() {
		v.Set(x)
		return
	}
	if !v.CanAddr() {
		return
	}
	reflect.NewAt(v.Type(), unsafe.Pointer(v.UnsafeAddr())).Elem().Set(x)
}
