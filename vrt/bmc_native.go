package vrt

import (
	"reflect"
	"sync"
	"sync/atomic"
	"unsafe"
)

// Native side of the goroutine harnesses: a minimal implementation (processes
// are started as ordinary goroutines; state predicates are evaluated after
// the run has settled). The schedule-directed replay lives in RunBMC.

type nativeProc struct {
	name string
	f    func()
	done chan struct{}
}

var (
	nmu     sync.Mutex
	nprocs  []*nativeProc
	nfinals []struct {
		label string
		f     func() bool
	}
	ninvars []struct {
		label string
		f     func() bool
	}
	// LibExitedFn is installed by the replay driver (goroutine dump filter).
	LibExitedFn func() bool
	NowFn       func() int
)

func nativeGo(name string, f func()) {
	nmu.Lock()
	defer nmu.Unlock()
	nprocs = append(nprocs, &nativeProc{name: name, f: f, done: make(chan struct{})})
}

func nativeFinal(label string, f func() bool) {
	nmu.Lock()
	defer nmu.Unlock()
	nfinals = append(nfinals, struct {
		label string
		f     func() bool
	}{label, f})
}

func nativeInvariant(label string, f func() bool) {
	nmu.Lock()
	defer nmu.Unlock()
	ninvars = append(ninvars, struct {
		label string
		f     func() bool
	}{label, f})
}

func nativeClosed(ch any) bool {
	v := reflect.ValueOf(ch)
	if v.Kind() != reflect.Chan || v.IsNil() {
		return false
	}
	if v.Len() > 0 {
		// a receive would consume a buffered value: read the runtime's closed flag instead
		return hchanClosed(v)
	}
	if v.Type().ChanDir()&reflect.RecvDir == 0 {
		return false
	}
	// non-blocking receive: closed channels yield (zero, false) immediately
	chosen, _, ok := reflect.Select([]reflect.SelectCase{{Dir: reflect.SelectRecv, Chan: v}, {Dir: reflect.SelectDefault}})
	return chosen == 0 && !ok
}

// hchanClosed reads runtime.hchan.closed of a non-nil channel without touching
// its buffer. Layout of go1.26 on 64-bit targets (the replay toolchain is
// pinned): qcount uint, dataqsiz uint, buf unsafe.Pointer, elemsize uint16,
// closed uint32 at offset 28. Only used while the run is quiescent.
func hchanClosed(v reflect.Value) bool {
	p := v.UnsafePointer()
	if p == nil {
		return false
	}
	return atomic.LoadUint32((*uint32)(unsafe.Add(p, 28))) != 0
}

func reflectLen(ch any) int {
	v := reflect.ValueOf(ch)
	if v.Kind() != reflect.Chan || v.IsNil() {
		return 0
	}
	return v.Len()
}

func nativeLibExited() bool {
	if LibExitedFn != nil {
		return LibExitedFn()
	}
	return true
}

func nativeExited(name string) bool {
	nmu.Lock()
	defer nmu.Unlock()
	for _, p := range nprocs {
		if p.name == name {
			select {
			case <-p.done:
			default:
				return false
			}
		}
	}
	return true
}

func nativeNow() int {
	if NowFn != nil {
		return NowFn()
	}
	return 0
}
