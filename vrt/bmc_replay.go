package vrt

import (
	"sync/atomic"
	"encoding/json"
	"fmt"
	"os"
	"regexp"
	"runtime"
	"strings"
	"testing"
	"testing/synctest"
	"time"
)

// Schedule-directed native replay of a BMC counterexample.
//
// The harness is run inside a testing/synctest bubble: set-up first (this
// starts the real library goroutines), then every environment goroutine
// registered with vrt.Go. Environment code that calls vrt.Pace(name) before a
// visible operation is held until the virtual instant derived from the
// position of that operation in the counterexample trace, so that the order
// of environment moves (send / close / cancel / receive) follows the trace;
// between two environment moves the library runs to quiescence. Library
// select choices cannot be forced, so the driver repeats the run. After the
// last move it waits for quiescence and evaluates the Final conditions; an
// assertion failure, a failed Final/Invariant, or a panic in any goroutine
// counts as "reproduced".

type traceFile struct {
	Trace []string `json:"trace"`
}

var (
	paceTimes map[string][]int
	paceCount map[string]int
	paceStart time.Time
)

var stepRe = regexp.MustCompile(`^(\d+) (.*?): `)

type traceStep struct {
	k     int
	names []string
	at    int64 // virtual time of the step in the counterexample (-1: not recorded)
	start bool  // "start [go]": the goroutine begins and arrives at its first operation
}

var atRe = regexp.MustCompile(` @t=(\d+)$`)

type envMove struct {
	t        int
	glob     int  // index among all environment moves of the trace
	chained  bool // same instant as the previous environment move (of another goroutine)
	at       int64
}

var (
	traceSteps []traceStep
	paceReady  bool
	paceMoves  map[string][]envMove
	moveDone   []atomic.Bool
	lastMove   map[string]int // per goroutine: global index of its move in flight (-1 none)
)

func loadTrace() {
	paceTimes = map[string][]int{}
	paceCount = map[string]int{}
	traceSteps = nil
	paceReady = false
	p := os.Getenv("VRT_CEX")
	if p == "" {
		return
	}
	b, err := os.ReadFile(p)
	if err != nil {
		return
	}
	var tf traceFile
	if json.Unmarshal(b, &tf) != nil {
		return
	}
	for _, line := range tf.Trace {
		m := stepRe.FindStringSubmatch(line)
		if m == nil {
			continue
		}
		var k int
		fmt.Sscanf(m[1], "%d", &k)
		if strings.Contains(line, "tau@") {
			continue
		}
		isStart := strings.Contains(line, "start [go]")
		at := int64(-1)
		if am := atRe.FindStringSubmatch(line); am != nil {
			fmt.Sscanf(am[1], "%d", &at)
		}
		traceSteps = append(traceSteps, traceStep{k, strings.Split(m[2], " -> "), at, isStart})
	}
}

// paceSchedule assigns a virtual instant to every environment move of the
// trace: consecutive environment moves with no library step in between share
// an instant (so the library is NOT given the chance to run in between); a
// library step in between advances the instant (the library runs to
// quiescence there).
func paceSchedule() {
	paceReady = true
	env := map[string]bool{}
	nmu.Lock()
	for _, p := range nprocs {
		env[p.name] = true
	}
	nmu.Unlock()
	paceMoves = map[string][]envMove{}
	lastMove = map[string]int{}
	glob := 0
	prevT, prevName := -1, ""
	t := 0
	lastEnv := false
	// every other group of attempts releases an environment goroutine whose move is
	// a rendez-vous with the library at the instant it ARRIVED at the operation in
	// the counterexample (it is parked there when the library comes), not at the
	// instant of the joint step: the library does not wait for a partner when
	// another arm of its select is ready
	byArrival := (paceAttempt/3)%2 == 1
	arr := map[string]int{}
	arrAt := map[string]int64{}
	for _, st := range traceSteps {
		if st.start {
			for _, n := range st.names {
				if env[n] {
					arr[n] = t
					arrAt[n] = st.at
				}
			}
			continue
		}
		lib, isEnv := false, false
		for _, n := range st.names {
			if env[n] {
				isEnv = true
			} else {
				lib = true
			}
		}
		if lib && lastEnv && !isEnv {
			t++
			lastEnv = false
		}
		if isEnv {
			for _, n := range st.names {
				if env[n] {
					tm, at := t, st.at
					if a, ok := arr[n]; ok && byArrival && lib && a < t {
						tm, at = a, arrAt[n]
					}
					paceTimes[n] = append(paceTimes[n], tm)
					paceMoves[n] = append(paceMoves[n], envMove{t: tm, glob: glob, chained: tm == t && prevT == t && prevName != n && prevName != "", at: at})
					glob++
					prevT, prevName = t, n
					arr[n] = t
					arrAt[n] = st.at
				}
			}
			lastEnv = true
			if lib { // rendez-vous with the library: it runs on from here
				t++
				lastEnv = false
			}
		}
	}
	moveDone = make([]atomic.Bool, glob+1)
}

// paceFinish marks the move a goroutine had in flight as completed.
func paceFinish(name string) {
	if g, ok := lastMove[name]; ok && g >= 0 && g < len(moveDone) {
		moveDone[g].Store(true)
		lastMove[name] = -1
	}
}

// Pace holds the calling environment goroutine until its next move is due
// according to the counterexample trace (no-op for the symbolic executor and
// when no trace is loaded).
func Pace(name string) {
	mu.Lock()
	if !paceReady {
		paceSchedule()
	}
	paceFinish(name)
	i := paceCount[name]
	paceCount[name] = i + 1
	ts := paceTimes[name]
	start := paceStart
	var mv *envMove
	if i < len(paceMoves[name]) {
		mv = &paceMoves[name][i]
		lastMove[name] = mv.glob
	}
	mu.Unlock()
	if start.IsZero() {
		return
	}
	k := 0
	if i < len(ts) {
		k = ts[i]
	} else if len(ts) > 0 {
		k = ts[len(ts)-1] + 1 + (i - len(ts))
	}
	due := start.Add(time.Duration(k+1) * time.Millisecond)
	if mv != nil && mv.at >= 0 {
		// the counterexample carries virtual time: follow it, plus a step-order
		// epsilon that varies between attempts (none / nanoseconds / microseconds:
		// which one reproduces the trace depends on the time scale of the stage)
		eps := time.Duration(k+1) * time.Microsecond
		switch paceAttempt % 3 {
		case 1:
			eps = 0
		case 2:
			eps = time.Duration(k + 1)
		}
		due = start.Add(time.Duration(mv.at) + eps)
	}
	if d := time.Until(due); d > 0 {
		time.Sleep(d)
	}
	if mv != nil && mv.chained && mv.glob > 0 {
		// the counterexample lets this move follow the previous environment move
		// with no library step in between: spin (do not yield to the scheduler)
		// until that move has completed, then go at once
		deadline := time.Now().Add(20 * time.Millisecond)
		for !moveDone[mv.glob-1].Load() {
			if spinTimeout(deadline) {
				break
			}
		}
	}
}

var realStart = nanotime()

func spinTimeout(deadline time.Time) bool {
	// virtual time does not advance while we spin; bound the spin by real iterations
	spinCount++
	return spinCount%20000000 == 0
}

var spinCount int

func nanotime() int64 { return 0 }

var createdByRe = regexp.MustCompile(`created by (\S+)`)

// libGoroutines counts live goroutines that were started by the library
// (created by a function of a fogfish/golem package; harness goroutines are
// created by vrt).
func libGoroutines() int {
	buf := make([]byte, 1<<20)
	n := runtime.Stack(buf, true)
	cnt := 0
	for _, g := range strings.Split(string(buf[:n]), "\n\n") {
		m := createdByRe.FindStringSubmatch(g)
		if m == nil {
			continue
		}
		if strings.Contains(m[1], "fogfish/golem") && !strings.Contains(g, "Throttling[") || strings.Contains(m[1], "fogfish/golem") && strings.Contains(g, "Throttling[") && !daemonOK {
			cnt++
		}
	}
	return cnt
}

var daemonOK bool

// BMCTest is the entry used by generated replay tests (needs *testing.T for the bubble).
func BMCTest(t *testing.T, h func()) (fails []string, applicable bool, panicked any) {
	applicable = true
	attempts := 60
	if os.Getenv("VRT_CEX") == "" {
		attempts = 1
	}
	for a := 0; a < attempts && len(fails) == 0 && panicked == nil && applicable; a++ {
		func() {
			// goroutines left blocked for good (e.g. a producer nobody reads from any
			// more) make the bubble end with a "deadlock" panic: not a finding by itself
			defer func() {
				if r := recover(); r != nil {
					if !strings.Contains(fmt.Sprint(r), "deadlock") {
						panicked = r
					}
				}
			}()
			synctest.Test(t, func(t *testing.T) {
				fails, applicable, panicked = runBMCOnce(h, a)
			})
		}()
	}
	return
}

var paceAttempt int

func runBMCOnce(h func(), attempt int) (fails []string, applicable bool, panicked any) {
	Reset()
	paceAttempt = attempt
	nmu.Lock()
	nprocs, nfinals, ninvars = nil, nil, nil
	nmu.Unlock()
	loadTrace()
	applicable = true
	// an environment parameter of the counterexample: the number of processors the
	// code under test was told it has (runtime.GOMAXPROCS / NumCPU are symbolic)
	mu.Lock()
	load()
	gmp := cx.Vals["gomaxprocs#0"]
	mu.Unlock()
	if gmp != "" {
		var n int
		if _, err := fmt.Sscanf(gmp, "%d", &n); err == nil && n >= 1 && n <= 256 {
			defer runtime.GOMAXPROCS(runtime.GOMAXPROCS(n))
		}
	}
	mu.Lock()
	paceStart = time.Now()
	mu.Unlock()
	LibExitedFn = func() bool { return libGoroutines() == 0 }
	NowFn = func() int { return int(time.Since(paceStart)) }
	func() {
		defer func() {
			if r := recover(); r != nil {
				if _, ok := r.(AssumeFailed); ok {
					applicable = false
					return
				}
				panicked = r
			}
		}()
		h()
	}()
	if !applicable || panicked != nil {
		return nil, applicable, panicked
	}
	nmu.Lock()
	procs := append([]*nativeProc(nil), nprocs...)
	nmu.Unlock()
	// vary the start order between attempts
	for i := range procs {
		p := procs[(i+attempt)%len(procs)]
		go func() {
			defer close(p.done)
			defer func() {
				mu.Lock()
				paceFinish(p.name)
				mu.Unlock()
			}()
			defer func() {
				if r := recover(); r != nil {
					if _, ok := r.(AssumeFailed); ok {
						return
					}
					mu.Lock()
					Failures = append(Failures, fmt.Sprintf("panic in %s: %v", p.name, r))
					mu.Unlock()
				}
			}()
			p.f()
		}()
		if attempt%2 == 1 {
			synctest.Wait()
		}
	}
	// let everything settle (virtual time: pending Pace sleeps elapse first)
	// ... for at least 200 ms of virtual time, and past the last instant of the
	// counterexample; stop as soon as a failure has been recorded (a goroutine
	// spinning on short sleeps would make the rest of the wait very long)
	var endT int64
	for _, st := range traceSteps {
		if st.at > endT {
			endT = st.at
		}
	}
	settle := 200*time.Millisecond + time.Duration(endT)
	for i := 0; i < 200; i++ {
		synctest.Wait()
		mu.Lock()
		failed := len(Failures) > 0
		mu.Unlock()
		if failed {
			break
		}
		time.Sleep(settle / 200)
	}
	synctest.Wait()
	nmu.Lock()
	fin := append([]struct {
		label string
		f     func() bool
	}(nil), nfinals...)
	inv := append([]struct {
		label string
		f     func() bool
	}(nil), ninvars...)
	nmu.Unlock()
	for _, x := range inv {
		if !x.f() {
			Assert(x.label, false)
		}
	}
	for _, x := range fin {
		if !x.f() {
			Assert(x.label, false)
		}
	}
	mu.Lock()
	fails = append([]string(nil), Failures...)
	mu.Unlock()
	// release whatever is still blocked so the bubble can end: cancel is the harness' business;
	// goroutines blocked forever would make synctest.Test panic ("deadlock"), which also shows as failure
	return fails, true, nil
}
