module verif.local/vrt

go 1.25
