package list

// C19 harness: every script of Cons/Tail (results kept alive in registers, so
// persistence is observable) over sequences built with New, run on the
// linked-list and on the slice implementation side by side with a plain-slice
// reference. After every step every live register of both implementations is
// read back with Head/Tail/Length/IsEmpty and folded with a non-commutative
// uninterpreted monoid. Hosted in the staged copy of internal/seq/list.

import (
	"github.com/fogfish/golem/pure/monoid"
	"github.com/fogfish/golem/seq"
	"github.com/fogfish/golem/seq/slice"
	"verif.local/vrt"
)

type vreg struct {
	l   Seq[int]
	s   slice.Seq[int]
	ref []int
}


func vcheck(r *vreg) {
	lt := Trait[int]("l")
	st := slice.Trait[int]("s")
	n := len(r.ref)
	vrt.Assert("list.length", lt.Length(r.l) == n)
	vrt.Assert("slice.length", st.Length(r.s) == n)
	vrt.Assert("list.isempty", lt.IsEmpty(r.l) == (n == 0))
	vrt.Assert("slice.isempty", st.IsEmpty(r.s) == (n == 0))
	// element list through Head/Tail
	cl, cs := r.l, r.s
	for i := 0; i < n; i++ {
		vrt.Assert("list.elem", lt.Head(cl) == r.ref[i])
		vrt.Assert("slice.elem", st.Head(cs) == r.ref[i])
		cl, cs = lt.Tail(cl), st.Tail(cs)
		vrt.Assert("list.taillen", lt.Length(cl) == n-i-1)
		vrt.Assert("slice.taillen", st.Length(cs) == n-i-1)
	}
	vrt.Assert("list.drained", lt.IsEmpty(cl))
	vrt.Assert("slice.drained", st.IsEmpty(cs))
	// fold: left to right from the monoid's empty element
	e := vrt.Int("empty")
	m := monoid.FromOp(e, func(a, b int) int { return vrt.UF2("op", a, b) })
	want := e
	for i := 0; i < n; i++ {
		want = vrt.UF2("op", want, r.ref[i])
	}
	fl := seq.Foldable[Seq[int], int]{Seq: lt}
	fs := seq.Foldable[slice.Seq[int], int]{Seq: st}
	vrt.Assert("list.fold", fl.Fold(m, r.l) == vrt.Named("f", want))
	vrt.Assert("slice.fold", fs.Fold(m, r.s) == vrt.Named("f", want))
}

func vnew(k int) vreg {
	lt := Trait[int]("l")
	st := slice.Trait[int]("s")
	xs := make([]int, k)
	for i := range xs {
		xs[i] = vrt.Int("x")
	}
	// each implementation gets its own argument slice; the reference its own copy
	a := append([]int(nil), xs...)
	b := append([]int(nil), xs...)
	var l Seq[int]
	var s slice.Seq[int]
	if k == 0 && vrt.Flip("newnil") {
		l, s = lt.New(), st.New()
	} else {
		l, s = lt.New(a...), st.New(b...)
	}
	return vreg{l: l, s: s, ref: xs}
}

const vNR = 2

func VSeqScript() {
	lt := Trait[int]("l")
	st := slice.Trait[int]("s")
	steps := vrt.Param("steps", 3)
	var regs [vNR]vreg
	regs[0] = vnew(vrt.Param("k0", 0))
	regs[1] = vnew(vrt.Param("k1", 1))
	for i := range regs {
		vcheck(&regs[i])
	}
	for pc := 0; pc < steps; pc++ {
		op := vrt.Choice("op", 3)
		if op == 2 {
			break
		}
		src := vrt.Choice("src", vNR)
		dst := vrt.Choice("dst", vNR)
		in := regs[src]
		switch op {
		case 0: // Cons
			x := vrt.Int("c")
			regs[dst] = vreg{l: lt.Cons(x, in.l), s: st.Cons(x, in.s), ref: append([]int{x}, in.ref...)}
		case 1: // Tail (outside the ADT on an empty sequence)
			if len(in.ref) == 0 {
				vrt.Assume(false)
			}
			regs[dst] = vreg{l: lt.Tail(in.l), s: st.Tail(in.s), ref: append([]int(nil), in.ref[1:]...)}
		}
		// persistence: every live register still reads back as its reference
		for i := range regs {
			vcheck(&regs[i])
		}
		// the source value we were given is unchanged too (it may have been overwritten in regs)
		vcheck(&in)
	}
	vrt.Cover("script.done")
}
