package hseq

// C03, layout-symbolic mode: the VSymL* leaf types have SYMBOLIC size and
// alignment (the solver ranges over all of them), the VSym* structs are laid
// out by the Go rule from those symbols. RootOffs+Offset of every entry must
// equal the offset obtained through ordinary selectors, for every layout.

import "verif.local/vrt"

type VSymL1 int8
type VSymL2 int64
type VSymL3 int16
type VSymL4 int32

type VSymC struct {
	X VSymL1
	Y VSymL2
}
type VSymB struct {
	P VSymL3
	VSymC
	Q VSymL4
}
type VSymA struct {
	Head VSymL1
	VSymB
	Tail VSymL3
}

func VSymList() {
	var x VSymA
	seq := New[VSymA]()
	want := []struct {
		name string
		off  int
	}{
		{"Head", vrt.OffsetOf(&x, &x.Head)},
		{"VSymB", vrt.OffsetOf(&x, &x.VSymB)},
		{"P", vrt.OffsetOf(&x, &x.VSymB.P)},
		{"VSymC", vrt.OffsetOf(&x, &x.VSymB.VSymC)},
		{"X", vrt.OffsetOf(&x, &x.VSymB.VSymC.X)},
		{"Y", vrt.OffsetOf(&x, &x.VSymB.VSymC.Y)},
		{"Q", vrt.OffsetOf(&x, &x.VSymB.Q)},
		{"Tail", vrt.OffsetOf(&x, &x.Tail)},
	}
	vrt.Assert("sym.listing.len", len(seq) == len(want))
	for i := range want {
		if i < len(seq) {
			vrt.Assert("sym.listing.name", seq[i].Name == want[i].name)
			vrt.Assert("sym.listing.id", seq[i].ID == i)
			vrt.Assert("sym.listing.offset", int(seq[i].RootOffs+seq[i].Offset) == want[i].off)
		}
	}
	// lookups keep pointing at the right entry under every layout
	vrt.Assert("sym.forname", int(ForName(seq, "Y").RootOffs+ForName(seq, "Y").Offset) == vrt.OffsetOf(&x, &x.VSymB.VSymC.Y))
	vrt.Assert("sym.fortype", int(ForType[VSymL4](seq).RootOffs+ForType[VSymL4](seq).Offset) == vrt.OffsetOf(&x, &x.VSymB.Q))
	vrt.Cover("sym.list.done")
}
