package hseq

// C03 harness: hseq.New/unfold/ForType/ForName/ForNameMaybe/New1..9/FMap*
// on a corpus of struct shapes, compared entry by entry with hand-written
// expected listings whose offsets are the compiler's (unsafe.Offsetof through
// ordinary selectors).

import (
	"reflect"
	"unsafe"

	"verif.local/vrt"
)

// ---- corpus

type VFlat struct {
	A bool
	B int64
	C int8
	D int16
	E int32
	F string
	G []int
	H *int
	I any
	J [3]int16
	K struct{}
	L uint8
}

type VIn3 struct {
	X int8
	Y int64
}
type VIn2 struct {
	P int16
	VIn3
	Q string
}
type VIn1 struct {
	M bool
	VIn2
	N int32
}
type VDeep struct {
	Head int8
	VIn1
	Tail uint16
}

type VTag struct {
	A int    `hseq:"alpha,opt"`
	B string `hseq:"beta"`
	C int    `json:"c"`
	d int
	E int `hseq:",opt"`
}

type VPtrIn struct {
	U int32
	V string
}
type VPtr struct {
	A int32
	*VPtrIn
	Z string
}

type VDupIn struct {
	X int
	Y string
}
type VDup struct {
	X int
	VDupIn
	Y string
	W float64
}

type VZero struct {
	A int32
	Z struct{}
	B int8
	T struct{}
}

type VMyInt int
type VNine struct {
	F1 int8
	F2 int16
	F3 int32
	F4 int64
	F5 string
	F6 bool
	F7 uint8
	F8 float64
	F9 VMyInt
}

type vexp struct {
	name string
	key  string
	typ  reflect.Type
	pure reflect.Type
	off  int // absolute byte offset in the outer struct, -1 if behind a pointer
	anon bool
}

func rt[A any]() reflect.Type { return reflect.TypeOf(new(A)).Elem() }

func vexpFlat() []vexp {
	var x VFlat
	return []vexp{
		{"A", "A", rt[bool](), rt[bool](), int(unsafe.Offsetof(x.A)), false},
		{"B", "B", rt[int64](), rt[int64](), int(unsafe.Offsetof(x.B)), false},
		{"C", "C", rt[int8](), rt[int8](), int(unsafe.Offsetof(x.C)), false},
		{"D", "D", rt[int16](), rt[int16](), int(unsafe.Offsetof(x.D)), false},
		{"E", "E", rt[int32](), rt[int32](), int(unsafe.Offsetof(x.E)), false},
		{"F", "F", rt[string](), rt[string](), int(unsafe.Offsetof(x.F)), false},
		{"G", "G", rt[[]int](), rt[[]int](), int(unsafe.Offsetof(x.G)), false},
		{"H", "H", rt[*int](), rt[int](), int(unsafe.Offsetof(x.H)), false},
		{"I", "I", rt[any](), rt[any](), int(unsafe.Offsetof(x.I)), false},
		{"J", "J", rt[[3]int16](), rt[[3]int16](), int(unsafe.Offsetof(x.J)), false},
		{"K", "K", rt[struct{}](), rt[struct{}](), int(unsafe.Offsetof(x.K)), false},
		{"L", "L", rt[uint8](), rt[uint8](), int(unsafe.Offsetof(x.L)), false},
	}
}

func vexpDeep() []vexp {
	var x VDeep
	o1 := int(unsafe.Offsetof(x.VIn1))
	o2 := o1 + int(unsafe.Offsetof(x.VIn1.VIn2))
	o3 := o2 + int(unsafe.Offsetof(x.VIn1.VIn2.VIn3))
	return []vexp{
		{"Head", "Head", rt[int8](), rt[int8](), int(unsafe.Offsetof(x.Head)), false},
		{"VIn1", "VIn1", rt[VIn1](), rt[VIn1](), o1, true},
		{"M", "M", rt[bool](), rt[bool](), o1 + int(unsafe.Offsetof(x.VIn1.M)), false},
		{"VIn2", "VIn2", rt[VIn2](), rt[VIn2](), o2, true},
		{"P", "P", rt[int16](), rt[int16](), o2 + int(unsafe.Offsetof(x.VIn1.VIn2.P)), false},
		{"VIn3", "VIn3", rt[VIn3](), rt[VIn3](), o3, true},
		{"X", "X", rt[int8](), rt[int8](), o3 + int(unsafe.Offsetof(x.VIn1.VIn2.VIn3.X)), false},
		{"Y", "Y", rt[int64](), rt[int64](), o3 + int(unsafe.Offsetof(x.VIn1.VIn2.VIn3.Y)), false},
		{"Q", "Q", rt[string](), rt[string](), o2 + int(unsafe.Offsetof(x.VIn1.VIn2.Q)), false},
		{"N", "N", rt[int32](), rt[int32](), o1 + int(unsafe.Offsetof(x.VIn1.N)), false},
		{"Tail", "Tail", rt[uint16](), rt[uint16](), int(unsafe.Offsetof(x.Tail)), false},
	}
}

func vexpTag() []vexp {
	var x VTag
	return []vexp{
		{"A", "alpha", rt[int](), rt[int](), int(unsafe.Offsetof(x.A)), false},
		{"B", "beta", rt[string](), rt[string](), int(unsafe.Offsetof(x.B)), false},
		{"C", "C", rt[int](), rt[int](), int(unsafe.Offsetof(x.C)), false},
		{"d", "d", rt[int](), rt[int](), int(unsafe.Offsetof(x.d)), false},
		{"E", "E", rt[int](), rt[int](), int(unsafe.Offsetof(x.E)), false},
	}
}

func vexpPtr() []vexp {
	var x VPtr
	return []vexp{
		{"A", "A", rt[int32](), rt[int32](), int(unsafe.Offsetof(x.A)), false},
		{"VPtrIn", "VPtrIn", rt[*VPtrIn](), rt[VPtrIn](), int(unsafe.Offsetof(x.VPtrIn)), true},
		{"U", "U", rt[int32](), rt[int32](), -1, false},
		{"V", "V", rt[string](), rt[string](), -1, false},
		{"Z", "Z", rt[string](), rt[string](), int(unsafe.Offsetof(x.Z)), false},
	}
}

func vexpDup() []vexp {
	var x VDup
	o := int(unsafe.Offsetof(x.VDupIn))
	return []vexp{
		{"X", "X", rt[int](), rt[int](), int(unsafe.Offsetof(x.X)), false},
		{"VDupIn", "VDupIn", rt[VDupIn](), rt[VDupIn](), o, true},
		{"X", "X", rt[int](), rt[int](), o + int(unsafe.Offsetof(x.VDupIn.X)), false},
		{"Y", "Y", rt[string](), rt[string](), o + int(unsafe.Offsetof(x.VDupIn.Y)), false},
		{"Y", "Y", rt[string](), rt[string](), int(unsafe.Offsetof(x.Y)), false},
		{"W", "W", rt[float64](), rt[float64](), int(unsafe.Offsetof(x.W)), false},
	}
}

// a diamond: the same struct type is embedded through two different paths
type VAudit struct {
	Rev  int32
	Note string
}
type VHead struct {
	Kind int8
	VAudit
}
type VBody struct {
	VAudit
	Text string
}
type VDoc struct {
	VHead
	Title string
	VBody
}

func vexpDoc() []vexp {
	var x VDoc
	oh := int(unsafe.Offsetof(x.VHead))
	oha := oh + int(unsafe.Offsetof(x.VHead.VAudit))
	ob := int(unsafe.Offsetof(x.VBody))
	oba := ob + int(unsafe.Offsetof(x.VBody.VAudit))
	return []vexp{
		{"VHead", "VHead", rt[VHead](), rt[VHead](), oh, true},
		{"Kind", "Kind", rt[int8](), rt[int8](), oh + int(unsafe.Offsetof(x.VHead.Kind)), false},
		{"VAudit", "VAudit", rt[VAudit](), rt[VAudit](), oha, true},
		{"Rev", "Rev", rt[int32](), rt[int32](), oha + int(unsafe.Offsetof(x.VHead.VAudit.Rev)), false},
		{"Note", "Note", rt[string](), rt[string](), oha + int(unsafe.Offsetof(x.VHead.VAudit.Note)), false},
		{"Title", "Title", rt[string](), rt[string](), int(unsafe.Offsetof(x.Title)), false},
		{"VBody", "VBody", rt[VBody](), rt[VBody](), ob, true},
		{"VAudit", "VAudit", rt[VAudit](), rt[VAudit](), oba, true},
		{"Rev", "Rev", rt[int32](), rt[int32](), oba + int(unsafe.Offsetof(x.VBody.VAudit.Rev)), false},
		{"Note", "Note", rt[string](), rt[string](), oba + int(unsafe.Offsetof(x.VBody.VAudit.Note)), false},
		{"Text", "Text", rt[string](), rt[string](), ob + int(unsafe.Offsetof(x.VBody.Text)), false},
	}
}

func VListDoc() {
	e := vexpDoc()
	seq := vcheckListing[VDoc](e)
	vforType[VDoc, int32](seq, e, "fortype.int32")
	vforType[VDoc, string](seq, e, "fortype.string")
	vforType[VDoc, VAudit](seq, e, "fortype.audit")
	vrt.Cover("doc.done")
}

func vexpZero() []vexp {
	var x VZero
	return []vexp{
		{"A", "A", rt[int32](), rt[int32](), int(unsafe.Offsetof(x.A)), false},
		{"Z", "Z", rt[struct{}](), rt[struct{}](), int(unsafe.Offsetof(x.Z)), false},
		{"B", "B", rt[int8](), rt[int8](), int(unsafe.Offsetof(x.B)), false},
		{"T", "T", rt[struct{}](), rt[struct{}](), int(unsafe.Offsetof(x.T)), false},
	}
}

func vexpNine() []vexp {
	var x VNine
	return []vexp{
		{"F1", "F1", rt[int8](), rt[int8](), int(unsafe.Offsetof(x.F1)), false},
		{"F2", "F2", rt[int16](), rt[int16](), int(unsafe.Offsetof(x.F2)), false},
		{"F3", "F3", rt[int32](), rt[int32](), int(unsafe.Offsetof(x.F3)), false},
		{"F4", "F4", rt[int64](), rt[int64](), int(unsafe.Offsetof(x.F4)), false},
		{"F5", "F5", rt[string](), rt[string](), int(unsafe.Offsetof(x.F5)), false},
		{"F6", "F6", rt[bool](), rt[bool](), int(unsafe.Offsetof(x.F6)), false},
		{"F7", "F7", rt[uint8](), rt[uint8](), int(unsafe.Offsetof(x.F7)), false},
		{"F8", "F8", rt[float64](), rt[float64](), int(unsafe.Offsetof(x.F8)), false},
		{"F9", "F9", rt[VMyInt](), rt[VMyInt](), int(unsafe.Offsetof(x.F9)), false},
	}
}

// ---- generic checks

func vfirstKey(e []vexp, key string) int {
	for i := range e {
		if e[i].key == key {
			return i
		}
	}
	return -1
}

func vfirstType(e []vexp, t reflect.Type) int {
	for i := range e {
		if e[i].typ == t {
			return i
		}
	}
	return -1
}

func vcheckListing[T any](e []vexp) Seq[T] {
	seq := New[T]()
	vrt.Assert("listing.len", len(seq) == len(e))
	if len(seq) != len(e) {
		return seq
	}
	for i := range e {
		vrt.Assert("listing.name", seq[i].Name == e[i].name)
		vrt.Assert("listing.id", seq[i].ID == i)
		vrt.Assert("listing.type", seq[i].Type == e[i].typ)
		vrt.Assert("listing.puretype", seq[i].PureType == e[i].pure)
		vrt.Assert("listing.anonymous", seq[i].Anonymous == e[i].anon)
		vrt.Assert("listing.key", seq[i].FieldKey() == e[i].key)
		if e[i].off >= 0 {
			vrt.Assert("listing.offset", int(seq[i].RootOffs+seq[i].Offset) == e[i].off)
		}
	}
	// the same type unfolded through a pointer is the same listing
	pseq := New[*T]()
	vrt.Assert("listing.ptr.len", len(pseq) == len(e))
	// lookups by key: first match, both flavours
	for _, x := range e {
		i := vfirstKey(e, x.key)
		vrt.Assert("forname.first", ForName(seq, x.key).ID == i)
		t, ok := ForNameMaybe(seq, x.key)
		vrt.Assert("fornamemaybe.found", ok && t.ID == i)
		// a raw field name hidden behind a tag is not a key
		if x.key != x.name && vfirstKey(e, x.name) < 0 {
			vrt.Assert("forname.tag-hides-name", vrt.Panics(func() { ForName(seq, x.name) }))
		}
	}
	vrt.Assert("forname.unknown", vrt.Panics(func() { ForName(seq, "NoSuchField") }))
	_, ok := ForNameMaybe(seq, "NoSuchField")
	vrt.Assert("fornamemaybe.unknown", !ok)
	// selection by names keeps the requested order (reverse of the listing)
	var names []string
	for i := len(e) - 1; i >= 0; i-- {
		if vfirstKey(e, e[i].key) == i {
			names = append(names, e[i].key)
		}
	}
	sel := New[T](names...)
	vrt.Assert("new.names.len", len(sel) == len(names))
	for i := range sel {
		if i < len(names) {
			vrt.Assert("new.names.order", sel[i].ID == vfirstKey(e, names[i]))
		}
	}
	vrt.Assert("new.names.unknown", vrt.Panics(func() { New[T]("NoSuchField") }))
	// FMap passes every entry in order
	ids := FMap(seq, func(t Type[T]) int { return vrt.UF1("g", t.ID) })
	vrt.Assert("fmap.len", len(ids) == len(e))
	for i := range ids {
		vrt.Assert("fmap.elem", ids[i] == vrt.Named("gi", vrt.UF1("g", i)))
	}
	return seq
}

func vforType[T, A any](seq Seq[T], e []vexp, label string) {
	want := vfirstType(e, rt[A]())
	if want < 0 {
		vrt.Assert(label+".absent", vrt.Panics(func() { ForType[A](seq) }))
		return
	}
	vrt.Assert(label, ForType[A](seq).ID == want)
}

func VListFlat() {
	e := vexpFlat()
	seq := vcheckListing[VFlat](e)
	vforType[VFlat, bool](seq, e, "fortype.bool")
	vforType[VFlat, int64](seq, e, "fortype.int64")
	vforType[VFlat, int16](seq, e, "fortype.int16")
	vforType[VFlat, string](seq, e, "fortype.string")
	vforType[VFlat, []int](seq, e, "fortype.slice")
	vforType[VFlat, *int](seq, e, "fortype.ptr")
	vforType[VFlat, int](seq, e, "fortype.int")
	vforType[VFlat, any](seq, e, "fortype.any")
	vforType[VFlat, [3]int16](seq, e, "fortype.array")
	vforType[VFlat, struct{}](seq, e, "fortype.empty")
	vforType[VFlat, VMyInt](seq, e, "fortype.named")
	vforType[VFlat, uint16](seq, e, "fortype.uint16")
	vrt.Cover("flat.done")
}

func VListDeep() {
	e := vexpDeep()
	seq := vcheckListing[VDeep](e)
	vforType[VDeep, VIn3](seq, e, "fortype.in3")
	vforType[VDeep, VIn2](seq, e, "fortype.in2")
	vforType[VDeep, int64](seq, e, "fortype.int64")
	vforType[VDeep, int8](seq, e, "fortype.int8")
	vforType[VDeep, string](seq, e, "fortype.string")
	vforType[VDeep, uint16](seq, e, "fortype.uint16")
	vforType[VDeep, *VIn3](seq, e, "fortype.ptr-in3")
	vrt.Cover("deep.done")
}

func VListTag() {
	e := vexpTag()
	seq := vcheckListing[VTag](e)
	vforType[VTag, int](seq, e, "fortype.int")
	vforType[VTag, string](seq, e, "fortype.string")
	vrt.Cover("tag.done")
}

func VListPtr() {
	e := vexpPtr()
	seq := vcheckListing[VPtr](e)
	vforType[VPtr, *VPtrIn](seq, e, "fortype.ptr")
	vforType[VPtr, VPtrIn](seq, e, "fortype.value")
	vforType[VPtr, string](seq, e, "fortype.string")
	vrt.Cover("ptr.done")
}

func VListDup() {
	e := vexpDup()
	seq := vcheckListing[VDup](e)
	vforType[VDup, int](seq, e, "fortype.int")
	vforType[VDup, string](seq, e, "fortype.string")
	vforType[VDup, float64](seq, e, "fortype.float64")
	vforType[VDup, float32](seq, e, "fortype.float32")
	vrt.Cover("dup.done")
}

func VListZero() {
	e := vexpZero()
	seq := vcheckListing[VZero](e)
	vforType[VZero, struct{}](seq, e, "fortype.empty")
	vforType[VZero, int8](seq, e, "fortype.int8")
	vrt.Cover("zero.done")
}

// NewN / FMapN: positional pairing of the i-th witness with the i-th function.
func VListNine() {
	e := vexpNine()
	vcheckListing[VNine](e)
	g := func(k int) func(Type[VNine]) int {
		return func(t Type[VNine]) int { return vrt.UF2("h", k, t.ID) }
	}
	want := func(k, id int) int { return vrt.Named("hk", vrt.UF2("h", k, id)) }

	s1 := New1[VNine, VMyInt]()
	vrt.Assert("new1", len(s1) == 1 && s1[0].ID == 8)
	vrt.Assert("fmap1", FMap1(s1, g(1)) == want(1, 8))

	s2 := New2[VNine, string, int8]()
	vrt.Assert("new2", len(s2) == 2 && s2[0].ID == 4 && s2[1].ID == 0)
	a2, b2 := FMap2(s2, g(1), g(2))
	vrt.Assert("fmap2", a2 == want(1, 4) && b2 == want(2, 0))

	s3 := New3[VNine, bool, int64, int16]()
	vrt.Assert("new3", len(s3) == 3 && s3[0].ID == 5 && s3[1].ID == 3 && s3[2].ID == 1)
	a3, b3, c3 := FMap3(s3, g(1), g(2), g(3))
	vrt.Assert("fmap3", a3 == want(1, 5) && b3 == want(2, 3) && c3 == want(3, 1))

	s4 := New4[VNine, float64, uint8, int32, string]()
	vrt.Assert("new4", len(s4) == 4 && s4[0].ID == 7 && s4[1].ID == 6 && s4[2].ID == 2 && s4[3].ID == 4)
	a4, b4, c4, d4 := FMap4(s4, g(1), g(2), g(3), g(4))
	vrt.Assert("fmap4", a4 == want(1, 7) && b4 == want(2, 6) && c4 == want(3, 2) && d4 == want(4, 4))

	s5 := New5[VNine, int16, int8, VMyInt, bool, int64]()
	vrt.Assert("new5", len(s5) == 5 && s5[0].ID == 1 && s5[1].ID == 0 && s5[2].ID == 8 && s5[3].ID == 5 && s5[4].ID == 3)
	a5, b5, c5, d5, e5 := FMap5(s5, g(1), g(2), g(3), g(4), g(5))
	vrt.Assert("fmap5", a5 == want(1, 1) && b5 == want(2, 0) && c5 == want(3, 8) && d5 == want(4, 5) && e5 == want(5, 3))

	s6 := New6[VNine, int64, int32, int16, int8, string, bool]()
	vrt.Assert("new6", len(s6) == 6 && s6[0].ID == 3 && s6[1].ID == 2 && s6[2].ID == 1 && s6[3].ID == 0 && s6[4].ID == 4 && s6[5].ID == 5)
	a6, b6, c6, d6, e6, f6 := FMap6(s6, g(1), g(2), g(3), g(4), g(5), g(6))
	vrt.Assert("fmap6", a6 == want(1, 3) && b6 == want(2, 2) && c6 == want(3, 1) && d6 == want(4, 0) && e6 == want(5, 4) && f6 == want(6, 5))

	s7 := New7[VNine, uint8, float64, VMyInt, int8, int16, int32, int64]()
	vrt.Assert("new7", len(s7) == 7 && s7[0].ID == 6 && s7[1].ID == 7 && s7[2].ID == 8 && s7[3].ID == 0 && s7[4].ID == 1 && s7[5].ID == 2 && s7[6].ID == 3)
	a7, b7, c7, d7, e7, f7, g7 := FMap7(s7, g(1), g(2), g(3), g(4), g(5), g(6), g(7))
	vrt.Assert("fmap7", a7 == want(1, 6) && b7 == want(2, 7) && c7 == want(3, 8) && d7 == want(4, 0) && e7 == want(5, 1) && f7 == want(6, 2) && g7 == want(7, 3))

	s8 := New8[VNine, VMyInt, float64, uint8, bool, string, int64, int32, int16]()
	vrt.Assert("new8", len(s8) == 8 && s8[0].ID == 8 && s8[1].ID == 7 && s8[2].ID == 6 && s8[3].ID == 5 && s8[4].ID == 4 && s8[5].ID == 3 && s8[6].ID == 2 && s8[7].ID == 1)
	a8, b8, c8, d8, e8, f8, g8, h8 := FMap8(s8, g(1), g(2), g(3), g(4), g(5), g(6), g(7), g(8))
	vrt.Assert("fmap8", a8 == want(1, 8) && b8 == want(2, 7) && c8 == want(3, 6) && d8 == want(4, 5) && e8 == want(5, 4) && f8 == want(6, 3) && g8 == want(7, 2) && h8 == want(8, 1))

	s9 := New9[VNine, int16, int8, int64, int32, bool, string, float64, uint8, VMyInt]()
	vrt.Assert("new9", len(s9) == 9 && s9[0].ID == 1 && s9[1].ID == 0 && s9[2].ID == 3 && s9[3].ID == 2 && s9[4].ID == 5 && s9[5].ID == 4 && s9[6].ID == 7 && s9[7].ID == 6 && s9[8].ID == 8)
	a9, b9, c9, d9, e9, f9, g9, h9, i9 := FMap9(s9, g(1), g(2), g(3), g(4), g(5), g(6), g(7), g(8), g(9))
	vrt.Assert("fmap9", a9 == want(1, 1) && b9 == want(2, 0) && c9 == want(3, 3) && d9 == want(4, 2) && e9 == want(5, 5) && f9 == want(6, 4) && g9 == want(7, 7) && h9 == want(8, 6) && i9 == want(9, 8))

	// a witness type no field has: loud failure
	vrt.Assert("new1.absent", vrt.Panics(func() { New1[VNine, uint32]() }))
	vrt.Assert("new2.absent", vrt.Panics(func() { New2[VNine, int8, int]() }))
	// Assert/AssertStrict do not panic on the identical type
	vrt.Assert("assert.ok", !vrt.Panics(func() { Assert[VNine, string](s2[0]) }))
	vrt.Assert("assertstrict.ok", !vrt.Panics(func() { AssertStrict[VNine, int8](s2[1]) }))
	vrt.Cover("nine.done")
}

// Two distinct types that print identically (a function-local type shadowing
// a package-level one): lookup by type must go by type identity, not by name.
type VKey string

type VShadow struct {
	N int
	K VKey
	S string
}

func VListShadow() {
	type VKey int // prints as "hseq.VKey", like the package-level string type
	type vlocal struct {
		A int32
		K VKey // the local int-based type
		Z string
	}
	seq := New[VShadow]()
	vrt.Assert("shadow.len", len(seq) == 3)
	// the witness is the LOCAL VKey (an int): VShadow has no field of that type
	vrt.Assert("shadow.fortype.absent", vrt.Panics(func() { ForType[VKey](seq) }))
	vrt.Assert("shadow.new1.absent", vrt.Panics(func() { New1[VShadow, VKey]() }))
	// and the other way round
	lseq := New[vlocal]()
	vrt.Assert("shadow.local.len", len(lseq) == 3)
	vrt.Assert("shadow.local.fortype", ForType[VKey](lseq).ID == 1)
	vrt.Assert("shadow.local.pkgtype.absent", vrt.Panics(func() { ForType[VShadowKeyAlias](lseq) }))
	vrt.Cover("shadow.done")
}

// the package-level VKey, nameable from inside VListShadow where VKey is shadowed
type VShadowKeyAlias = VKey
