package ord

// C17 harnesses: Eq/Ord instances, ContraMap, From wrappers and Monoid
// constructors. Hosted in package ord (it imports eq/monoid/semigroup; none of
// them imports ord). All ints are 64-bit symbolic values, strings are
// arbitrary byte strings of length <= strlen, projections and base operations
// are uninterpreted functions.

import (
	"github.com/fogfish/golem/pure"
	"github.com/fogfish/golem/pure/eq"
	"github.com/fogfish/golem/pure/monoid"
	"github.com/fogfish/golem/pure/semigroup"
	"verif.local/vrt"
)

func implies(a, b bool) bool { return !a || b }

func VEqInt() {
	a, b, c := vrt.Int("a"), vrt.Int("b"), vrt.Int("c")
	vrt.Assert("eq.int.agree", eq.Int.Equal(a, b) == (a == b))
	vrt.Assert("eq.int.refl", eq.Int.Equal(a, a))
	vrt.Assert("eq.int.sym", eq.Int.Equal(a, b) == eq.Int.Equal(b, a))
	vrt.Assert("eq.int.trans", implies(eq.Int.Equal(a, b) && eq.Int.Equal(b, c), eq.Int.Equal(a, c)))
	vrt.Cover("eq.int.done")
}

func VEqString() {
	n := vrt.Param("strlen", 2)
	a, b, c := vrt.Str("a", n), vrt.Str("b", n), vrt.Str("c", n)
	vrt.Assert("eq.str.agree", eq.String.Equal(a, b) == (a == b))
	vrt.Assert("eq.str.refl", eq.String.Equal(a, a))
	vrt.Assert("eq.str.sym", eq.String.Equal(a, b) == eq.String.Equal(b, a))
	vrt.Assert("eq.str.trans", implies(eq.String.Equal(a, b) && eq.String.Equal(b, c), eq.String.Equal(a, c)))
	vrt.Cover("eq.str.done")
}

func VOrdInt() {
	a, b, c := vrt.Int("a"), vrt.Int("b"), vrt.Int("c")
	ab, ba, bc, ac := Int.Compare(a, b), Int.Compare(b, a), Int.Compare(b, c), Int.Compare(a, c)
	vrt.Assert("ord.int.range", ab == LT || ab == EQ || ab == GT)
	vrt.Assert("ord.int.lt", (ab == LT) == (a < b))
	vrt.Assert("ord.int.gt", (ab == GT) == (a > b))
	vrt.Assert("ord.int.eq", (ab == EQ) == (a == b))
	vrt.Assert("ord.int.eq-agrees-with-Eq", (ab == EQ) == eq.Int.Equal(a, b))
	vrt.Assert("ord.int.antisym", (ab == LT) == (ba == GT))
	vrt.Assert("ord.int.antisym2", (ab == EQ) == (ba == EQ))
	vrt.Assert("ord.int.trans", implies(ab == LT && bc == LT, ac == LT))
	vrt.Assert("ord.int.trans-le", implies(ab != GT && bc != GT, ac != GT))
	vrt.Assert("ord.int.refl", Int.Compare(a, a) == EQ)
	vrt.Cover("ord.int.done")
}

func VOrdString() {
	n := vrt.Param("strlen", 2)
	a, b, c := vrt.Str("a", n), vrt.Str("b", n), vrt.Str("c", n)
	ab, ba, bc, ac := String.Compare(a, b), String.Compare(b, a), String.Compare(b, c), String.Compare(a, c)
	vrt.Assert("ord.str.range", ab == LT || ab == EQ || ab == GT)
	vrt.Assert("ord.str.lt", (ab == LT) == (a < b))
	vrt.Assert("ord.str.gt", (ab == GT) == (a > b))
	vrt.Assert("ord.str.eq", (ab == EQ) == (a == b))
	vrt.Assert("ord.str.eq-agrees-with-Eq", (ab == EQ) == eq.String.Equal(a, b))
	vrt.Assert("ord.str.antisym", (ab == LT) == (ba == GT))
	vrt.Assert("ord.str.antisym2", (ab == EQ) == (ba == EQ))
	vrt.Assert("ord.str.trans", implies(ab == LT && bc == LT, ac == LT))
	vrt.Assert("ord.str.refl", String.Compare(a, a) == EQ)
	vrt.Cover("ord.str.done")
}


func VContraMap() {
	a, b := vrt.Int("a"), vrt.Int("b")
	// base instances are arbitrary (not symmetric) binary functions
	baseOrd := From[int](func(x, y int) Ordering { return Ordering(vrt.UF2("cmp", x, y)) })
	baseEq := eq.From[int](func(x, y int) bool { return vrt.Pred2("same", x, y) })
	proj := pure.ContraMap[int, int](func(x int) int { return vrt.UF1("pi", x) })

	co := ContraMap[int, int]{Ord: baseOrd, ContraMap: proj}
	pa, pb := vrt.Named("pa", vrt.UF1("pi", a)), vrt.Named("pb", vrt.UF1("pi", b))
	vrt.Assert("ord.contramap", int(co.Compare(a, b)) == vrt.UF2("cmp", pa, pb))

	ce := eq.ContraMap[int, int]{Eq: baseEq, ContraMap: proj}
	vrt.Assert("eq.contramap", ce.Equal(a, b) == vrt.Pred2("same", pa, pb))

	// over the built-in instances the law reads directly
	ci := ContraMap[int, int]{Ord: Int, ContraMap: proj}
	r := ci.Compare(a, b)
	vrt.Assert("ord.contramap.int.lt", (r == LT) == (pa < pb))
	vrt.Assert("ord.contramap.int.gt", (r == GT) == (pa > pb))
	ei := eq.ContraMap[int, int]{Eq: eq.Int, ContraMap: proj}
	vrt.Assert("eq.contramap.int", ei.Equal(a, b) == (pa == pb))
	vrt.Cover("contramap.done")
}

func VFrom() {
	a, b := vrt.Int("a"), vrt.Int("b")
	fo := From[int](func(x, y int) Ordering { return Ordering(vrt.UF2("cmp", x, y)) })
	vrt.Assert("ord.from", int(fo.Compare(a, b)) == vrt.Named("c", vrt.UF2("cmp", a, b)))
	fe := eq.From[int](func(x, y int) bool { return vrt.Pred2("same", x, y) })
	vrt.Assert("eq.from", fe.Equal(a, b) == vrt.Pred2("same", vrt.Named("a2", a), vrt.Named("b2", b)))
	fs := semigroup.From[int](func(x, y int) int { return vrt.UF2("op", x, y) })
	vrt.Assert("semigroup.from", fs.Combine(a, b) == vrt.Named("s", vrt.UF2("op", a, b)))
	vrt.Cover("from.done")
}

func VMonoid() {
	a, b, e := vrt.Int("a"), vrt.Int("b"), vrt.Int("e")
	op := func(x, y int) int { return vrt.UF2("op", x, y) }
	m1 := monoid.FromOp(e, op)
	vrt.Assert("monoid.fromop.empty", m1.Empty() == vrt.Named("e1", e))
	vrt.Assert("monoid.fromop.combine", m1.Combine(a, b) == vrt.Named("c1", vrt.UF2("op", a, b)))
	vrt.Assert("monoid.fromop.combine-rev", m1.Combine(b, a) == vrt.Named("c1r", vrt.UF2("op", b, a)))
	m2 := monoid.From[int](e, semigroup.From[int](op))
	vrt.Assert("monoid.from.empty", m2.Empty() == vrt.Named("e2", e))
	vrt.Assert("monoid.from.combine", m2.Combine(a, b) == vrt.Named("c2", vrt.UF2("op", a, b)))
	// Empty is stable across calls and independent of Combine
	_ = m2.Combine(m2.Empty(), a)
	vrt.Assert("monoid.from.empty-stable", m2.Empty() == vrt.Named("e3", e))
	// a Monoid is a Semigroup too: From over an already-built monoid still takes
	// the given element as Empty (and the inner operation as Combine)
	e4 := vrt.Int("e4")
	m3 := monoid.From[int](e4, m1)
	vrt.Assert("monoid.from-monoid.empty", m3.Empty() == vrt.Named("e4", e4))
	vrt.Assert("monoid.from-monoid.combine", m3.Combine(a, b) == vrt.Named("c4", vrt.UF2("op", a, b)))
	m4 := monoid.From[int](e4, m2)
	vrt.Assert("monoid.from-from.empty", m4.Empty() == vrt.Named("e5", e4))
	vrt.Cover("monoid.done")
}
