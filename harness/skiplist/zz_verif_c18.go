package skiplist

// C18 harnesses (in-package, staged copy of internal/maplike/skiplist).
//
// VSkipStep: one Put/Get/Remove with symbolic arguments and an unconstrained
// random source from EVERY valid list shape within the bound (n nodes of
// heights 1..H; the representation invariant fixes all pointers once the
// heights are chosen), keys symbolic and strictly ascending in the order used.
// The post-state must again satisfy the representation invariant and agree
// with the reference map. One step from every valid state covers histories of
// any length that stay within the size bound.
//
// VSkipHistory: every history of `ops` operations from New() through the
// public API (node heights decided by the unconstrained source), checked the
// same way; it also shows the invariant is not too strong.

import (
	"github.com/fogfish/golem/maplike"
	"github.com/fogfish/golem/pure/ord"
	"verif.local/vrt"
)

type vsource struct{}

// Int63 returns an arbitrary non-negative int64, as math/rand documents.
func (vsource) Int63() int64 {
	r := vrt.Int("r")
	vrt.Assume(r >= 0)
	return int64(r)
}
func (vsource) Seed(int64) {}

type vkv struct{ k, v int }

func vorder() ord.Ord[int] {
	switch vrt.Param("ord", 0) {
	case 1: // reversed order through ord.From
		return ord.From[int](func(a, b int) ord.Ordering { return ord.Int.Compare(b, a) })
	case 2: // order of a projection (injective: x xor const), through ContraMap
		return ord.ContraMap[int, int]{Ord: ord.Int, ContraMap: func(x int) int { return x ^ 0x5555 }}
	}
	return ord.Int
}

// reference map: slice sorted by cmp
func vrefFind(cmp ord.Ord[int], ref []vkv, k int) (int, bool) {
	for i := range ref {
		switch cmp.Compare(ref[i].k, k) {
		case ord.EQ:
			return i, true
		case ord.GT:
			return i, false
		}
	}
	return len(ref), false
}

func vrefPut(cmp ord.Ord[int], ref []vkv, k, v int) []vkv {
	i, found := vrefFind(cmp, ref, k)
	out := append([]vkv(nil), ref[:i]...)
	out = append(out, vkv{k, v})
	if found {
		return append(out, ref[i+1:]...)
	}
	return append(out, ref[i:]...)
}

func vrefGet(cmp ord.Ord[int], ref []vkv, k int) int {
	if i, found := vrefFind(cmp, ref, k); found {
		return ref[i].v
	}
	return 0
}

func vrefRemove(cmp ord.Ord[int], ref []vkv, k int) []vkv {
	i, found := vrefFind(cmp, ref, k)
	if !found {
		return ref
	}
	return append(append([]vkv(nil), ref[:i]...), ref[i+1:]...)
}

// vcheckShape asserts the representation invariant and agreement with ref.
func vcheckShape(l *tSkipList[int, int], ref []vkv) {
	vrt.Assert("length", l.length == len(ref))
	// level 0 holds exactly the reference pairs in order
	var nodes []*tSkipNode[int, int]
	v := l.head.fingers[0]
	for i := 0; v != nil; i++ {
		if i > len(ref)+2 {
			vrt.Assert("level0.acyclic", false)
			return
		}
		nodes = append(nodes, v)
		vrt.Assert("node.height>=1", len(v.fingers) >= 1)
		if len(v.fingers) == 0 {
			return
		}
		v = v.fingers[0]
	}
	vrt.Assert("level0.count", len(nodes) == len(ref))
	if len(nodes) != len(ref) {
		return
	}
	for i, n := range nodes {
		vrt.Assert("level0.key", n.key == ref[i].k)
		vrt.Assert("level0.val", n.val == ref[i].v)
		vrt.Assert("node.height<=levels", len(n.fingers) <= l.levels)
	}
	// level lev is exactly the sub-chain of nodes of height > lev (forward pointers only)
	vrt.Assert("head.height", len(l.head.fingers) == l.levels)
	for lev := 0; lev < l.levels; lev++ {
		cur := l.head.fingers[lev]
		for _, n := range nodes {
			if len(n.fingers) > lev {
				vrt.Assert("level.chain", cur == n)
				if cur != n {
					return
				}
				cur = n.fingers[lev]
			}
		}
		vrt.Assert("level.end", cur == nil)
	}
}

func vnewList(cmp ord.Ord[int]) *tSkipList[int, int] {
	l := New[int, int](cmp).(*tSkipList[int, int])
	l.random = vsource{}
	return l
}

// vshape builds a valid list of n nodes (heights 1..maxh, symbolic ascending keys).
func vshape(cmp ord.Ord[int], n, maxh int) (*tSkipList[int, int], []*tSkipNode[int, int], []vkv) {
	l := vnewList(cmp)
	var nodes []*tSkipNode[int, int]
	var ref []vkv
	for i := 0; i < n; i++ {
		k, v := vrt.Int("k"), vrt.Int("v")
		h := 1 + vrt.Choice("h", maxh)
		if i > 0 {
			vrt.Assume(cmp.Compare(ref[i-1].k, k) == ord.LT)
		}
		nodes = append(nodes, &tSkipNode[int, int]{key: k, val: v, fingers: make([]*tSkipNode[int, int], h)})
		ref = append(ref, vkv{k, v})
	}
	for lev := 0; lev < l.levels; lev++ {
		prev := l.head
		for _, nd := range nodes {
			if len(nd.fingers) > lev {
				prev.fingers[lev] = nd
				prev = nd
			}
		}
	}
	l.length = n
	return l, nodes, ref
}

// VSkipHistoryFrom: histories of Get/Remove/Put from a populated shape, the
// operation keys drawn from the keys already present or a fresh one (so that
// hits, repeated removals and stale positions are reached with few steps).
func VSkipHistoryFrom() {
	cmp := vorder()
	l, nodes, ref := vshape(cmp, vrt.Param("n", 2), vrt.Param("maxh", 2))
	ops := vrt.Param("ops", 3)
	fresh := vrt.Int("fresh")
	for i := 0; i < ops; i++ {
		var key int
		// the first step's choices may be fixed by job parameters (parallel split)
		w, op := -1, -1
		if i == 0 {
			w, op = vrt.Param("which0", -1), vrt.Param("op0", -1)
		}
		if w < 0 {
			w = vrt.Choice("which", len(nodes)+1)
		}
		if op < 0 {
			op = vrt.Choice("op", 2+vrt.Param("puts", 0))
		}
		if w < len(nodes) {
			key = nodes[w].key
		} else {
			key = fresh
		}
		switch op {
		case 0:
			vrt.Assert("get", l.Get(key) == vrefGet(cmp, ref, key))
		case 1:
			vrt.Assert("remove", l.Remove(key) == vrefGet(cmp, ref, key))
			ref = vrefRemove(cmp, ref, key)
		case 2:
			val := vrt.Int("val")
			l.Put(key, val)
			ref = vrefPut(cmp, ref, key, val)
		}
		vcheckShape(l, ref)
	}
	vrt.Cover("historyfrom.done")
}

func VSkipStep() {
	cmp := vorder()
	l := vnewList(cmp)
	n := vrt.Param("n", 2)
	maxh := vrt.Param("maxh", 3)
	var nodes []*tSkipNode[int, int]
	var ref []vkv
	for i := 0; i < n; i++ {
		k, v := vrt.Int("k"), vrt.Int("v")
		h := 1 + vrt.Choice("h", maxh)
		if i > 0 {
			vrt.Assume(cmp.Compare(ref[i-1].k, k) == ord.LT)
		}
		nodes = append(nodes, &tSkipNode[int, int]{key: k, val: v, fingers: make([]*tSkipNode[int, int], h)})
		ref = append(ref, vkv{k, v})
	}
	// the shape the invariant dictates
	for lev := 0; lev < l.levels; lev++ {
		prev := l.head
		for _, nd := range nodes {
			if len(nd.fingers) > lev {
				prev.fingers[lev] = nd
				prev = nd
			}
		}
	}
	l.length = n
	vcheckShape(l, ref) // the constructed pre-state is valid (and the checker accepts it)

	key, val := vrt.Int("key"), vrt.Int("val")
	switch vrt.Param("op", 0) {
	case 0:
		r := l.Put(key, val)
		vrt.Assert("put.returns-self", r == maplike.MapLike[int, int](l))
		ref = vrefPut(cmp, ref, key, val)
	case 1:
		vrt.Assert("get", l.Get(key) == vrefGet(cmp, ref, key))
	case 2:
		vrt.Assert("remove", l.Remove(key) == vrefGet(cmp, ref, key))
		ref = vrefRemove(cmp, ref, key)
	}
	vcheckShape(l, ref)
	// every key that was or is in the map is answered like the reference map
	vrt.Assert("get.after", l.Get(key) == vrefGet(cmp, ref, key))
	for _, nd := range nodes {
		vrt.Assert("get.old", l.Get(nd.key) == vrefGet(cmp, ref, nd.key))
	}
	vrt.Cover("step.done")
}

func VSkipHistory() {
	cmp := vorder()
	l := vnewList(cmp)
	var ref []vkv
	var keys []int
	ops := vrt.Param("ops", 3)
	for i := 0; i < ops; i++ {
		key, val := vrt.Int("key"), vrt.Int("val")
		keys = append(keys, key)
		switch vrt.Choice("op", 3) {
		case 0:
			l.Put(key, val)
			ref = vrefPut(cmp, ref, key, val)
		case 1:
			vrt.Assert("get", l.Get(key) == vrefGet(cmp, ref, key))
		case 2:
			vrt.Assert("remove", l.Remove(key) == vrefGet(cmp, ref, key))
			ref = vrefRemove(cmp, ref, key)
		}
		vcheckShape(l, ref)
	}
	for _, k := range keys {
		vrt.Assert("get.final", l.Get(k) == vrefGet(cmp, ref, k))
	}
	vrt.Cover("history.done")
}
