package pipe

import (
	"context"
	"time"

	"github.com/fogfish/golem/pure/monoid"
	"verif.local/vrt"
)

// C06 harness: every stage under a maximally permissive environment. The
// producer may close the input early at any point, every consumer may stop
// receiving for good at any point, cancel may fire at any step (or never) -
// all chosen by the symbolic schedule / symbolic coin flips.
//
// Checked: no goroutine ever panics (always on); what a consumer has received
// is a prefix of the uncancelled result; at quiescence
//   inputs closed and outputs drained  =>  every returned channel closed and the stage's goroutines gone
//   cancelled and inputs closed        =>  the same, even if nobody receives any more.

type v6err struct{ x int }

func (e v6err) Error() string { return "v6err" }

func v6E(x int) bool { return vrt.Pred1("E", x) }

const (
	v6Map = iota
	v6FMap
	v6Filter
	v6ForEach
	v6Void
	v6Fold
	v6Partition
	v6Join
	v6Take
	v6TakeWhile
	v6StdErr
	v6MapLift
	v6MapTry
	v6Unfold
	v6Emit
	v6Throttling
	v6EmitTry // Emit over a Try function failing on an uninterpreted set of indices
)

func VLife() {
	st := vrt.Param("stage", 0)
	n := vrt.Param("n", 2)
	capc := vrt.Param("cap", 0)
	xs := vinputs(n)
	ctx, cancel := context.WithCancel(context.Background())
	in := make(chan int, capc)
	var o1, o2 <-chan int
	var od <-chan struct{}
	var oe <-chan error
	k := 0
	e := 0
	want := 0
	hasInput := true
	lift := func(x int) (int, error) {
		if v6E(x) {
			return 0, v6err{x}
		}
		return vF(x), nil
	}
	// bounded liveness of the generator under Try: once the context is cancelled
	// and both consumers have stopped for good, every further application either
	// parks a value/error in a buffer or ends the stage, so there are at most
	// cap(out)+cap(errors)+1 of them (a generator that keeps applying its function
	// after cancel without ever looking at the context exceeds any bound)
	stop1, stopE, after := false, false, 0
	switch st {
	case v6EmitTry:
		hasInput = false
		o1, oe = Emit(ctx, capc, time.Duration(5), Try(func(i int) (int, error) {
			after += vrt.B2I(vrt.All(vrt.Closed(ctx.Done()), stop1, stopE))
			vrt.Assert("cancel=>bounded-applications", after <= 2*vrt.Param("cap", 0)+1)
			if v6E(i) {
				return 0, v6err{i}
			}
			return vF(i), nil
		}))
	case v6Map:
		o1, oe = Map(ctx, in, Pure(vF))
	case v6FMap:
		o1, oe = FMap(ctx, in, LiftF(func(c context.Context, a int, o chan<- int) error {
			select { // a well-behaved arrow honours its context
			case o <- vrt.UF2("G", a, 0):
			case <-c.Done():
			}
			return nil
		}))
	case v6Filter:
		o1 = Filter(ctx, in, Pure(vP))
	case v6ForEach:
		od = ForEach(ctx, in, Pure(vF))
	case v6Void:
		od = Void(ctx, in)
	case v6Fold:
		e = vrt.Int("e")
		want = e
		for i := 0; i < n; i++ {
			want = vrt.UF2("op", want, xs[i])
		}
		o1 = Fold(ctx, in, monoid.FromOp(e, func(a, b int) int { return vrt.UF2("op", a, b) }))
	case v6Partition:
		o1, o2 = Partition(ctx, in, Pure(vP))
	case v6Join:
		o1 = Join(ctx, in)
	case v6Take:
		k = vrt.Int("k")
		vrt.Assume(1 <= k && k <= n+1)
		o1 = Take(ctx, in, k)
	case v6TakeWhile:
		o1 = TakeWhile(ctx, in, Pure(vP))
	case v6StdErr:
		o1 = StdErr(Map(ctx, in, Try(lift)))
	case v6MapLift:
		o1, oe = Map(ctx, in, Lift(lift))
	case v6MapTry:
		o1, oe = Map(ctx, in, Try(lift))
	case v6Unfold:
		hasInput = false
		o1, oe = Unfold(ctx, capc, xs[0], Pure(vF))
	case v6Emit:
		hasInput = false
		o1, oe = Emit(ctx, capc, time.Duration(5), Pure(vF))
	case v6Throttling:
		o1 = Throttling(ctx, in, 1, time.Duration(5))
	}
	accL, posL, _ := vranks(&xs, n, vP)
	accR, posR, _ := vranks(&xs, n, func(x int) bool { return !vP(x) })
	accOK, posOK, _ := vranks(&xs, n, func(x int) bool { return !v6E(x) })
	accBad, posBad, _ := vranks(&xs, n, v6E)

	sent, cancelled := 0, false
	g1, g2, ge := 0, 0, 0
	d1, d2, dd, de := o1 == nil, o2 == nil, od == nil, oe == nil // "drained": the consumer saw the close
	if hasInput {
		vrt.Go("producer", func() {
			for i := 0; i < n; i++ {
				if vrt.Flip("producer-closes-early") {
					break
				}
				vrt.Pace("producer")
				in <- xs[i]
				sent++
			}
			vrt.Pace("producer")
			close(in)
		})
	}
	if o1 != nil {
		vrt.Go("consumer1", func() {
			for {
				if vrt.Flip("consumer1-stops") {
					stop1 = true
					return
				}
				vrt.Pace("consumer1")
				v, ok := <-o1
				if !ok {
					d1 = true
					vrt.Cover("consumer1-drained")
					return
				}
				switch st {
				case v6Map, v6StdErr, v6MapLift, v6MapTry:
					if st == v6Map {
						vrt.Assert("prefix", vrt.And(g1 < n, v == vrt.UF1("F", vat(&xs, n, g1))))
					} else {
						vrt.Assert("prefix", vnthF(&xs, n, &accOK, &posOK, g1, v))
					}
				case v6FMap:
					vrt.Assert("prefix", vrt.And(g1 < n, v == vrt.UF2("G", vat(&xs, n, g1), 0)))
				case v6Filter, v6Partition:
					vrt.Assert("prefix", vnth(&xs, n, &accL, &posL, g1, v))
				case v6Fold:
					vrt.Assert("prefix", vrt.And(g1 == 0, v == want))
				case v6Join, v6Throttling:
					vrt.Assert("prefix", vrt.And(g1 < n, v == vat(&xs, n, g1)))
				case v6Take:
					vrt.Assert("prefix", vrt.All(g1 < n, g1 < k, v == vat(&xs, n, g1)))
				case v6TakeWhile:
					vrt.Assert("prefix", vrt.All(g1 < n, v == vat(&xs, n, g1), vP(v)))
				}
				g1++
			}
		})
	}
	if o2 != nil {
		vrt.Go("consumer2", func() {
			for {
				if vrt.Flip("consumer2-stops") {
					return
				}
				vrt.Pace("consumer2")
				v, ok := <-o2
				if !ok {
					d2 = true
					return
				}
				vrt.Assert("prefix2", vnth(&xs, n, &accR, &posR, g2, v))
				g2++
			}
		})
	}
	if od != nil {
		vrt.Go("consumerD", func() {
			if vrt.Flip("consumerD-stops") {
				return
			}
			_, ok := <-od
			vrt.Assert("done-carries-no-value", !ok)
			dd = true
		})
	}
	if oe != nil {
		vrt.Go("consumerE", func() {
			for {
				if vrt.Flip("consumerE-stops") {
					stopE = true
					return
				}
				vrt.Pace("consumerE")
				err, ok := <-oe
				if !ok {
					de = true
					return
				}
				if st != v6EmitTry {
					vrt.Assert("errors.prefix", vnthErr(&xs, n, &accBad, &posBad, ge, err))
				}
				ge++
			}
		})
	}
	vrt.Go("cancel", func() {
		if vrt.Flip("cancel-fires") {
			vrt.Pace("cancel")
			cancel()
			cancelled = true
		}
	})
	if st == v6Throttling {
		vrt.Daemon("Throttling[int]$1") // the pacer may live until cancel
	}
	closedAll := func() bool {
		return (o1 == nil || vrt.Closed(o1)) && (o2 == nil || vrt.Closed(o2)) && (od == nil || vrt.Closed(od)) && (oe == nil || vrt.Closed(oe))
	}
	inputsClosed := func() bool { return !hasInput || vrt.Exited("producer") }
	vrt.Final("drained=>closed+exited", func() bool {
		if hasInput && inputsClosed() && d1 && d2 && dd && de {
			return closedAll() && vrt.LibExited()
		}
		return true
	})
	vrt.Final("cancelled=>closed+exited", func() bool {
		if cancelled && inputsClosed() {
			if st == v6Throttling {
				return closedAll() && vrt.LibExited() && vrt.AllLibExited()
			}
			return closedAll() && vrt.LibExited()
		}
		return true
	})
}

// vnthF: v is F applied to the g-th selected element
func vnthF(xs *[vMaxN]int, n int, acc *[vMaxN]bool, pos *[vMaxN]int, g, v int) bool {
	ok := false
	for i := 0; i < n; i++ {
		ok = vrt.Or(ok, vrt.All(acc[i], pos[i] == g, v == vrt.UF1("F", xs[i])))
	}
	return ok
}

// vnthErr: err is the error of the g-th failing element
func vnthErr(xs *[vMaxN]int, n int, acc *[vMaxN]bool, pos *[vMaxN]int, g int, err error) bool {
	ok := false
	for i := 0; i < n; i++ {
		ok = vrt.Or(ok, vrt.All(acc[i], pos[i] == g, err == error(v6err{xs[i]})))
	}
	return ok
}
