package pipe

import (
	"context"
	"time"

	"verif.local/vrt"
)

// C11 harnesses: Unfold and Emit produce the exact successive sequence, paced
// by the (virtual) clock, until cancelled. Generators never terminate by
// themselves: all runs of up to K steps are checked (prefix bound).

const v11M = 5 // indices considered for Emit under Try

type v11err struct{ x int }

func (e v11err) Error() string { return "v11err" }

// VUnfold: j-th value is F^j(seed), for every capacity, consumer pace and cancel point.
func VUnfold() {
	capc := vrt.Param("cap", 0)
	seed := vrt.Int("seed")
	ctx, cancel := context.WithCancel(context.Background())
	out, exx := Unfold(ctx, capc, seed, Pure(vF))
	exp := seed // next expected value
	got, nerr := 0, 0
	cancelled, drained, edrained := false, false, false
	vrt.Go("consumer", func() {
		for {
			if vrt.Flip("consumer-stops") {
				return
			}
			vrt.Pace("consumer")
			v, ok := <-out
			if !ok {
				drained = true
				return
			}
			vrt.Assert("unfold.sequence", v == exp)
			exp = vrt.UF1("F", exp)
			got++
			if got == 3 {
				vrt.Cover("unfold.three-values")
			}
		}
	})
	vrt.Go("errors", func() {
		for range exx {
			nerr++
		}
		edrained = true
	})
	vrt.Go("cancel", func() {
		if vrt.Flip("cancel-fires") {
			vrt.Pace("cancel")
			cancel()
			cancelled = true
		}
	})
	vrt.Invariant("unfold.no-close-before-cancel", func() bool { return cancelled || !(drained || edrained) })
	vrt.Final("unfold.stops-after-cancel", func() bool {
		if cancelled {
			return vrt.Closed(out) && vrt.Closed(exx) && vrt.LibExited() && nerr == 0
		}
		return true
	})
}

// VEmit: j-th value is F(i_j), i_j the j-th index that does not fail (Try);
// F is applied at most once per elapsed frequency tick, so the j-th value is
// never available before (j+1) ticks (lax clock: goroutines and timers may be
// arbitrarily late); both channels close after cancel.
func VEmit() {
	capc := vrt.Param("cap", 0)
	freq := vrt.Param("freq", 5)
	try := vrt.Param("try", 0) == 1
	ctx, cancel := context.WithCancel(context.Background())
	calls := 0
	fn := func(i int) (int, error) {
		vrt.Assert("emit.index-sequence", i == calls)
		vrt.Assert("emit.at-most-once-per-tick", vrt.Now() >= (i+1)*freq)
		calls++
		if try && vrt.Pred1("E", i) {
			return 0, v11err{i}
		}
		return vrt.UF1("F", i), nil
	}
	var f F[int, int]
	if try {
		f = Try(fn)
	} else {
		f = Lift(fn)
	}
	out, exx := Emit(ctx, capc, time.Duration(freq), f)
	// rank of index i among the non-failing ones
	var okI [v11M]bool
	var rank [v11M]int
	r := 0
	for i := 0; i < v11M; i++ {
		okI[i] = !(try && vrt.Pred1("E", i))
		rank[i] = r
		r += vrt.B2I(okI[i])
	}
	got, gote := 0, 0
	cancelled := false
	vrt.Go("consumer", func() {
		for {
			if vrt.Flip("consumer-stops") {
				return
			}
			vrt.Pace("consumer")
			v, ok := <-out
			if !ok {
				return
			}
			match := false
			for i := 0; i < v11M; i++ {
				match = vrt.Or(match, vrt.All(okI[i], rank[i] == got, v == vrt.UF1("F", i), vrt.Now() >= (i+1)*freq))
			}
			vrt.Assert("emit.sequence-and-pace", vrt.Or(match, calls > v11M)) // only indices below v11M are tabulated
			got++
			if got == 2 {
				vrt.Cover("emit.two-values")
			}
		}
	})
	vrt.Go("errors", func() {
		for {
			vrt.Pace("errors")
			err, ok := <-exx
			if !ok {
				return
			}
			match := false
			for i := 0; i < v11M; i++ {
				match = vrt.Or(match, vrt.All(!okI[i], i-rank[i] == gote, err == error(v11err{i})))
			}
			vrt.Assert("emit.errors-in-order", vrt.Or(match, calls > v11M))
			gote++
		}
	})
	vrt.Go("cancel", func() {
		if vrt.Flip("cancel-fires") {
			vrt.Pace("cancel")
			cancel()
			cancelled = true
		}
	})
	vrt.Final("emit.stops-after-cancel", func() bool {
		if cancelled {
			return vrt.Closed(out) && vrt.Closed(exx) && vrt.LibExited()
		}
		return true
	})
}

// VEmitKeepsUp: under the urgent clock (time advances only when nothing else
// can move, exactly to the next deadline) a consumer that is always ready
// receives the j-th value at exactly (j+1) ticks.
func VEmitKeepsUp() {
	freq := vrt.Param("freq", 5)
	ctx, cancel := context.WithCancel(context.Background())
	_ = cancel
	out, exx := Emit(ctx, vrt.Param("cap", 0), time.Duration(freq), Pure(vF))
	got := 0
	vrt.Go("consumer", func() {
		for v := range out {
			vrt.Assert("emit.one-per-tick", vrt.And(v == vrt.UF1("F", got), vrt.Now() == (got+1)*freq))
			got++
			if got == 2 {
				vrt.Cover("emit.keeps-up.two-values")
			}
		}
	})
	vrt.Go("errors", func() {
		for range exx {
		}
	})
}
