package pipe

import (
	"context"

	"github.com/fogfish/golem/pure/monoid"
	"verif.local/vrt"
)

// C05 harnesses: sequential stages deliver exactly the list image, in order,
// exactly once, and then close - for every input, every stage function
// (uninterpreted), every interleaving (the schedule is a solver variable).
// Channel capacity and input length are job parameters (case split).
// No cancellation here ("context not cancelled").

const vMaxN = 4

func vinputs(n int) [vMaxN]int {
	var xs [vMaxN]int
	for i := 0; i < n; i++ {
		xs[i] = vrt.Int("x")
	}
	return xs
}

// vinput builds the input channel: fed by a producer goroutine that sends and
// then closes (style 0), or pre-filled and closed like pipe.Seq (style 1).
func vinput(xs *[vMaxN]int, n int, sent *int) <-chan int {
	if vrt.Param("seq", 0) == 1 {
		*sent = n
		return Seq(xs[:n]...)
	}
	in := make(chan int, vrt.Param("cap", 0))
	vrt.Go("producer", func() {
		for i := 0; i < n; i++ {
			in <- xs[i]
			*sent++
		}
		close(in)
	})
	return in
}

func vproducerDone() bool {
	return vrt.Param("seq", 0) == 1 || vrt.Exited("producer")
}

func vctx() context.Context {
	ctx, cancel := context.WithCancel(context.Background())
	_ = cancel
	return ctx
}

// vat is xs[j] for a symbolic j in [0, n) written without branching
func vat(xs *[vMaxN]int, n int, j int) int {
	r := 0
	for i := 0; i < n; i++ {
		r = vrt.Ite(j == i, xs[i], r)
	}
	return r
}

func vF(x int) int   { return vrt.UF1("F", x) }
func vP(x int) bool  { return vrt.Pred1("P", x) }
func vdrainErr(exx <-chan error, nerr *int) {
	vrt.Go("errors", func() {
		for range exx {
			*nerr++
		}
	})
}

func VMapPure() {
	n := vrt.Param("n", 2)
	xs := vinputs(n)
	sent, got, nerr := 0, 0, 0
	in := vinput(&xs, n, &sent)
	out, exx := Map(vctx(), in, Pure(vF))
	vrt.Go("consumer", func() {
		for v := range out {
			vrt.Assert("map.order", vrt.And(got < n, v == vrt.UF1("F", vat(&xs, n, got))))
			got++
		}
		vrt.Cover("map.consumer-done")
	})
	vdrainErr(exx, &nerr)
	vrt.Final("map.complete", func() bool {
		return got == n && nerr == 0 && vrt.Closed(out) && vrt.Closed(exx) && vrt.LibExited() &&
			vrt.Exited("consumer") && vproducerDone() && vrt.Exited("errors")
	})
}

// vranks: acc[i] = "element i is selected", pos[i] = number of selected elements before i
func vranks(xs *[vMaxN]int, n int, sel func(int) bool) (acc [vMaxN]bool, pos [vMaxN]int, total int) {
	for i := 0; i < n; i++ {
		acc[i] = sel(xs[i])
		pos[i] = total
		total += vrt.B2I(acc[i])
	}
	return
}

// vnth: "v is the g-th selected element" as one formula
func vnth(xs *[vMaxN]int, n int, acc *[vMaxN]bool, pos *[vMaxN]int, g, v int) bool {
	ok := false
	for i := 0; i < n; i++ {
		ok = vrt.Or(ok, vrt.All(acc[i], pos[i] == g, v == xs[i]))
	}
	return ok
}

func VFilter() {
	n := vrt.Param("n", 2)
	xs := vinputs(n)
	sent, got := 0, 0
	acc, pos, want := vranks(&xs, n, vP)
	in := vinput(&xs, n, &sent)
	out := Filter(vctx(), in, Pure(vP))
	vrt.Go("consumer", func() {
		for v := range out {
			vrt.Assert("filter.order", vnth(&xs, n, &acc, &pos, got, v))
			got++
		}
		vrt.Cover("filter.consumer-done")
	})
	vrt.Final("filter.complete", func() bool {
		return got == want && vrt.Closed(out) && vrt.LibExited() && vrt.Exited("consumer") && vproducerDone()
	})
}

func VTake() {
	n := vrt.Param("n", 2)
	xs := vinputs(n)
	k := vrt.Int("k")
	vrt.Assume(0 <= k && k <= n+1)
	sent, got := 0, 0
	capc := vrt.Param("cap", 0)
	in := vinput(&xs, n, &sent)
	out := Take(vctx(), in, k)
	vrt.Go("consumer", func() {
		for v := range out {
			vrt.Assert("take.order", vrt.All(got < n, got < k, v == vat(&xs, n, got)))
			got++
		}
		vrt.Cover("take.consumer-done")
	})
	// nothing beyond n elements is taken out of the input: completed sends are the
	// elements consumed by the stage plus those still parked in the input buffer
	vrt.Invariant("take.consumes-at-most-n", func() bool {
		return vrt.Param("seq", 0) == 1 || sent <= k+capc
	})
	vrt.Final("take.complete", func() bool {
		w := vrt.Ite(n < k, n, k)
		return got == w && vrt.Closed(out) && vrt.LibExited() && vrt.Exited("consumer")
	})
}

func VTakeWhile() {
	n := vrt.Param("n", 2)
	xs := vinputs(n)
	sent, got := 0, 0
	want := 0 // length of the longest prefix satisfying P
	alive := 1
	for i := 0; i < n; i++ {
		alive = alive * vrt.B2I(vP(xs[i]))
		want += alive
	}
	in := vinput(&xs, n, &sent)
	out := TakeWhile(vctx(), in, Pure(vP))
	vrt.Go("consumer", func() {
		for v := range out {
			vrt.Assert("takewhile.order", vrt.All(got < want, v == vat(&xs, n, got)))
			got++
		}
		vrt.Cover("takewhile.consumer-done")
	})
	vrt.Final("takewhile.complete", func() bool {
		return got == want && vrt.Closed(out) && vrt.LibExited() && vrt.Exited("consumer")
	})
}

func VPartition() {
	n := vrt.Param("n", 2)
	xs := vinputs(n)
	sent, gotL, gotR := 0, 0, 0
	accL, posL, wantL := vranks(&xs, n, vP)
	accR, posR, wantR := vranks(&xs, n, func(x int) bool { return !vP(x) })
	in := vinput(&xs, n, &sent)
	lout, rout := Partition(vctx(), in, Pure(vP))
	vrt.Go("left", func() {
		for v := range lout {
			vrt.Assert("partition.left.order", vnth(&xs, n, &accL, &posL, gotL, v))
			gotL++
		}
		vrt.Cover("partition.left-done")
	})
	vrt.Go("right", func() {
		for v := range rout {
			vrt.Assert("partition.right.order", vnth(&xs, n, &accR, &posR, gotR, v))
			gotR++
		}
		vrt.Cover("partition.right-done")
	})
	vrt.Final("partition.complete", func() bool {
		return gotL == wantL && gotR == wantR && vrt.Closed(lout) && vrt.Closed(rout) && vrt.LibExited() &&
			vrt.Exited("left") && vrt.Exited("right") && vproducerDone()
	})
}

func VFold() {
	n := vrt.Param("n", 2)
	xs := vinputs(n)
	e := vrt.Int("e")
	want := e
	for i := 0; i < n; i++ {
		want = vrt.UF2("op", want, xs[i])
	}
	sent, got := 0, 0
	in := vinput(&xs, n, &sent)
	out := Fold(vctx(), in, monoid.FromOp(e, func(a, b int) int { return vrt.UF2("op", a, b) }))
	vrt.Go("consumer", func() {
		for v := range out {
			vrt.Assert("fold.value", vrt.And(got == 0, v == want))
			got++
		}
		vrt.Cover("fold.consumer-done")
	})
	vrt.Final("fold.complete", func() bool {
		return got == 1 && vrt.Closed(out) && vrt.LibExited() && vrt.Exited("consumer") && vproducerDone()
	})
}

func VForEach() {
	n := vrt.Param("n", 2)
	xs := vinputs(n)
	sent, calls, done := 0, 0, 0
	in := vinput(&xs, n, &sent)
	var dn <-chan struct{}
	if vrt.Param("void", 0) == 1 {
		dn = Void(vctx(), in)
		calls = -1
	} else {
		dn = ForEach(vctx(), in, Pure(func(x int) int {
			vrt.Assert("foreach.order", vrt.And(calls < n, x == vat(&xs, n, calls)))
			calls++
			return x
		}))
	}
	vrt.Go("consumer", func() {
		for range dn {
			vrt.Assert("foreach.no-values", false)
		}
		done++
		vrt.Cover("foreach.consumer-done")
	})
	vrt.Final("foreach.complete", func() bool {
		return (calls == n || calls == -1) && done == 1 && vrt.Closed(dn) && vrt.LibExited() && vproducerDone()
	})
}

// FMap: the arrow emits K(a) in {0,1,2} values G(a,0), G(a,1) for each input a
func vK(a int) int { return (vrt.UF1("K", a) & 3) % 3 }

func VFMap() {
	n := vrt.Param("n", 2)
	xs := vinputs(n)
	sent, got, nerr := 0, 0, 0
	// position of the first output of element i, and the total
	var first [vMaxN]int
	want := 0
	for i := 0; i < n; i++ {
		first[i] = want
		want += vK(xs[i])
	}
	in := vinput(&xs, n, &sent)
	out, exx := FMap(vctx(), in, LiftF(func(ctx context.Context, a int, o chan<- int) error {
		k := vK(a)
		for j := 0; j < k; j++ {
			o <- vrt.UF2("G", a, j)
		}
		return nil
	}))
	vrt.Go("consumer", func() {
		for v := range out {
			ok := false
			for i := 0; i < n; i++ {
				for j := 0; j < 2; j++ {
					ok = vrt.Or(ok, vrt.All(j < vK(xs[i]), first[i]+j == got, v == vrt.UF2("G", xs[i], j)))
				}
			}
			vrt.Assert("fmap.order", ok)
			got++
		}
		vrt.Cover("fmap.consumer-done")
	})
	vdrainErr(exx, &nerr)
	vrt.Final("fmap.complete", func() bool {
		return got == want && nerr == 0 && vrt.Closed(out) && vrt.Closed(exx) && vrt.LibExited() &&
			vrt.Exited("consumer") && vproducerDone() && vrt.Exited("errors")
	})
}

// Seq / ToSeq: identity (sequential code, decided during set-up)
func VSeqToSeq() {
	n := vrt.Param("n", 2)
	xs := vinputs(n)
	ch := Seq(xs[:n]...)
	vrt.Assert("seq.cap", cap(ch) == n)
	ys := ToSeq(ch)
	vrt.Assert("toseq.len", len(ys) == n)
	for i := range ys {
		if i < n {
			vrt.Assert("toseq.elem", ys[i] == vrt.Named("x", xs[i]))
		}
	}
	// a goroutine-based reader sees the same, then close
	ch2 := Seq(xs[:n]...)
	got := 0
	vrt.Go("reader", func() {
		for v := range ch2 {
			vrt.Assert("seq.order", vrt.And(got < n, v == vat(&xs, n, got)))
			got++
		}
	})
	vrt.Final("seq.complete", func() bool { return got == n && vrt.Closed(ch2) && vrt.Exited("reader") })
}
