package pipe

import (
	"context"
	"time"

	"verif.local/vrt"
)

// C13 harnesses: Throttling keeps every element, in order, and bounds the rate.

const v13N = 6

// VThrottleRate (lax clock: goroutines and timers may be arbitrarily late,
// producer and consumer move whenever the schedule lets them - idle periods
// followed by bursts included): order / exactly-once / close, and no window of
// length `interval` sees more than B = 2*ops+1+c deliveries, i.e.
// d[i+B] - d[i] >= interval for the delivery instants d.
func VThrottleRate() {
	ops := vrt.Param("ops", 1)
	capc := vrt.Param("cap", 0)
	interval := vrt.Param("interval", 10)
	n := vrt.Param("n", 4)
	bound := 2*ops + 1 + capc
	ctx, cancel := context.WithCancel(context.Background())
	_ = cancel
	var xs [v13N]int
	for i := 0; i < n; i++ {
		xs[i] = vrt.Int("x")
	}
	// seq=1: the input is pre-filled (the data goroutine can still be arbitrarily
	// late under the lax clock, which is what lets tokens pile up before a burst)
	var in <-chan int
	if vrt.Param("seq", 0) == 1 {
		ch := make(chan int, n)
		for i := 0; i < n; i++ {
			ch <- xs[i]
		}
		close(ch)
		capc = n
		bound = 2*ops + 1 + capc
		in = ch
	} else {
		ch := make(chan int, capc)
		vrt.Go("producer", func() {
			for i := 0; i < n; i++ {
				ch <- xs[i]
			}
			close(ch)
		})
		in = ch
	}
	out := Throttling(ctx, in, ops, time.Duration(interval))
	vrt.Daemon("Throttling[int]$1")
	var d [v13N]int
	got := 0
	vrt.Go("consumer", func() {
		for v := range out {
			ok := false
			for i := 0; i < n; i++ {
				ok = vrt.Or(ok, vrt.And(got == i, v == xs[i]))
			}
			vrt.Assert("throttle.order", ok)
			now := vrt.Now()
			for i := 0; i < n; i++ {
				d[i] = vrt.Ite(got == i, now, d[i])
			}
			// the delivery `bound` positions earlier is at least one interval old
			old := false
			for i := bound; i < n; i++ {
				old = vrt.Or(old, vrt.And(got == i, now-d[i-bound] < interval))
			}
			vrt.Assert("throttle.rate-bound", !old)
			got++
		}
		vrt.Cover("throttle.consumer-done")
	})
	vrt.Final("throttle.complete", func() bool {
		return got == n && vrt.Closed(out) && vrt.LibExited() && (vrt.Param("seq", 0) == 1 || vrt.Exited("producer")) && vrt.Exited("consumer")
	})
}

// VThrottleBurst (urgent clock: the library's timers fire exactly on time; the
// producer is always ready; the consumer idles for a symbolic time before each
// receive - idle periods followed by bursts): no window of length `interval`
// sees more than B = 2*ops+1+c deliveries, i.e. d[i+B] - d[i] >= interval.
func VThrottleBurst() {
	ops := vrt.Param("ops", 1)
	capc := vrt.Param("cap", 0)
	interval := vrt.Param("interval", 10)
	n := vrt.Param("n", 4)
	bound := 2*ops + 1 + capc
	ctx, cancel := context.WithCancel(context.Background())
	_ = cancel
	var xs, stall [v13N]int
	for i := 0; i < n; i++ {
		xs[i] = vrt.Int("x")
		stall[i] = vrt.Int("stall")
		vrt.Assume(stall[i] >= 0 && stall[i] <= 4*interval)
	}
	ch := make(chan int, capc)
	vrt.Go("producer", func() {
		for i := 0; i < n; i++ {
			ch <- xs[i]
		}
		close(ch)
	})
	out := Throttling(ctx, (<-chan int)(ch), ops, time.Duration(interval))
	vrt.Daemon("Throttling[int]$1")
	var d [v13N]int
	got := 0
	vrt.Go("consumer", func() {
		for i := 0; i < n; i++ {
			time.Sleep(time.Duration(stall[i]))
			v, ok := <-out
			now := vrt.Now()
			vrt.Assert("burst.order", vrt.And(ok, v == xs[i]))
			d[i] = now
			if i >= bound {
				vrt.Assert("burst.rate-bound", now-d[i-bound] >= interval)
			}
			got++
		}
		vrt.Cover("burst.consumer-done")
	})
	vrt.Final("burst.complete", func() bool { return got == n && vrt.Exited("producer") && vrt.Exited("consumer") })
}

// VThrottlePace (urgent clock, input always available, consumer always
// ready): element i is delivered no earlier than floor(i/ops)*interval and no
// later than one interval after that.
func VThrottlePace() {
	ops := vrt.Param("ops", 1)
	interval := vrt.Param("interval", 10)
	n := vrt.Param("n", 3)
	ctx, cancel := context.WithCancel(context.Background())
	_ = cancel
	var xs [v13N]int
	for i := 0; i < n; i++ {
		xs[i] = vrt.Int("x")
	}
	in := Seq(xs[:n]...)
	out := Throttling(ctx, in, ops, time.Duration(interval))
	vrt.Daemon("Throttling[int]$1")
	got := 0
	vrt.Go("consumer", func() {
		for v := range out {
			ok := false
			now := vrt.Now()
			for i := 0; i < n; i++ {
				lo := (i / ops) * interval
				ok = vrt.Or(ok, vrt.All(got == i, v == xs[i], now >= lo, now <= lo+interval))
			}
			vrt.Assert("throttle.pace", ok)
			got++
		}
		vrt.Cover("throttle.pace.consumer-done")
	})
	vrt.Final("throttle.pace.complete", func() bool { return got == n && vrt.Closed(out) })
}
