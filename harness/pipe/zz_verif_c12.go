package pipe

import (
	"verif.local/vrt"
)

// C12 harnesses: Join is an interleaving of its inputs. k inputs (0..3), each
// fed by its own producer goroutine (or pre-filled like pipe.Seq) with n_i
// symbolic values whose two low bits carry the input index (payload free), so
// the consumer can project the merged stream onto each input and compare it
// with that input's own sequence through a per-input cursor. The arrival
// order is the schedule (a solver variable). No cancellation here.

const v12MaxK = 3

// v12values: n symbolic values tagged with the input index
func v12values(tag, n int) [vMaxN]int {
	var xs [vMaxN]int
	for j := 0; j < n; j++ {
		xs[j] = vrt.Int("x")
		vrt.Assume(xs[j]&3 == tag)
	}
	return xs
}

// v12input: one input channel with its producer (style seq=1: pre-filled and closed)
func v12input(name string, xs *[vMaxN]int, n, capc int, sent *int) chan int {
	if vrt.Param("seq", 0) == 1 {
		in := make(chan int, n)
		for j := 0; j < n; j++ {
			in <- xs[j]
		}
		close(in)
		*sent = n
		return in
	}
	in := make(chan int, capc)
	vrt.Go(name, func() {
		for j := 0; j < n; j++ {
			in <- xs[j]
			*sent++
		}
		close(in)
	})
	return in
}

func v12producerDone(name string) bool {
	return vrt.Param("seq", 0) == 1 || vrt.Exited(name)
}

func VJoin() {
	k := vrt.Param("k", 2)
	var ns [v12MaxK]int
	ns[0], ns[1], ns[2] = vrt.Param("n0", 1), vrt.Param("n1", 1), vrt.Param("n2", 1)
	capc := vrt.Param("cap", 0)
	cap1 := vrt.Param("cap1", capc) // the second input may have a different capacity
	total := 0
	for i := 0; i < k; i++ {
		total += ns[i]
	}
	xs0, xs1, xs2 := v12values(0, ns[0]), v12values(1, ns[1]), v12values(2, ns[2])
	var sent [v12MaxK]int
	var ins [v12MaxK]chan int
	var out <-chan int
	ctx := vctx()
	switch k {
	case 0:
		out = Join[int](ctx)
	case 1:
		ins[0] = v12input("p0", &xs0, ns[0], capc, &sent[0])
		out = Join(ctx, (<-chan int)(ins[0]))
	case 2:
		ins[0] = v12input("p0", &xs0, ns[0], capc, &sent[0])
		ins[1] = v12input("p1", &xs1, ns[1], cap1, &sent[1])
		out = Join(ctx, (<-chan int)(ins[0]), (<-chan int)(ins[1]))
	default:
		ins[0] = v12input("p0", &xs0, ns[0], capc, &sent[0])
		ins[1] = v12input("p1", &xs1, ns[1], cap1, &sent[1])
		ins[2] = v12input("p2", &xs2, ns[2], capc, &sent[2])
		out = Join(ctx, (<-chan int)(ins[0]), (<-chan int)(ins[1]), (<-chan int)(ins[2]))
	}
	vrt.Assert("join.out-capacity", cap(out) == k)

	got := 0
	var cur [v12MaxK]int // per-input cursor of the consumer
	vrt.Go("consumer", func() {
		for v := range out {
			t := v & 3
			is0, is1, is2 := t == 0, t == 1, t == 2
			// the element its own input has at the cursor of that input
			want := vrt.Ite(is0, vat(&xs0, ns[0], cur[0]), vrt.Ite(is1, vat(&xs1, ns[1], cur[1]), vat(&xs2, ns[2], cur[2])))
			c := vrt.Ite(is0, cur[0], vrt.Ite(is1, cur[1], cur[2]))
			lim := vrt.Ite(is0, ns[0], vrt.Ite(is1, ns[1], ns[2]))
			vrt.Assert("join.projection-order", vrt.All(t < k, c < lim, v == want))
			cur[0] += vrt.B2I(is0)
			cur[1] += vrt.B2I(is1)
			cur[2] += vrt.B2I(is2)
			got++
		}
		vrt.Cover("join.consumer-done")
	})

	// closed(out) only after every input has been closed and drained: nothing is
	// left in an input buffer, every producer completed all its sends, and
	// everything sent is either delivered or parked in the output buffer
	vrt.Invariant("join.close-only-after-drained", func() bool {
		if !vrt.Closed(out) {
			return true
		}
		for i := 0; i < k; i++ {
			if !vrt.Closed(ins[i]) || vrt.ChanLen(ins[i]) != 0 || sent[i] != ns[i] {
				return false
			}
		}
		return got+vrt.ChanLen(out) == total
	})
	// nothing is invented or duplicated on the way: delivered + buffered never
	// exceeds what the producers have completed (+ one in flight per copier)
	vrt.Invariant("join.no-excess", func() bool {
		s := 0
		for i := 0; i < k; i++ {
			s += sent[i]
		}
		return got+vrt.ChanLen(out) <= s+k && cur[0] <= ns[0] && cur[1] <= ns[1] && cur[2] <= ns[2]
	})
	vrt.Final("join.complete", func() bool {
		ok := got == total && vrt.Closed(out) && vrt.ChanLen(out) == 0 && vrt.LibExited() && vrt.Exited("consumer")
		for i := 0; i < k; i++ {
			ok = ok && cur[i] == ns[i] && vrt.Closed(ins[i]) && vrt.ChanLen(ins[i]) == 0
		}
		if k >= 1 {
			ok = ok && v12producerDone("p0")
		}
		if k >= 2 {
			ok = ok && v12producerDone("p1")
		}
		if k >= 3 {
			ok = ok && v12producerDone("p2")
		}
		return ok
	})
}
