package pipe

import (
	"verif.local/vrt"
)

// C12 harnesses: Join is an interleaving of its inputs. k inputs (0..3), each
// fed by its own producer goroutine (or pre-filled like pipe.Seq) with n_i
// symbolic values whose two low bits carry the input index (payload free), so
// the consumer can project the merged stream onto each input and compare it
// with that input's own sequence through a per-input cursor. The arrival
// order is the schedule (a solver variable). No cancellation here.

const v12MaxK = 3

// Join is parametric in the element type; a narrow one (2 tag bits + 6 free
// payload bits: 64 distinguishable values per input, at most 2 are needed)
// keeps the bit-vector part of the queries small.
type v12elem = int8

// v12values: n symbolic values tagged with the input index
func v12values(tag, n int) [vMaxN]v12elem {
	var xs [vMaxN]v12elem
	for j := 0; j < n; j++ {
		xs[j] = v12elem(vrt.Int("x"))<<2 | v12elem(tag)
	}
	return xs
}

// v12at is xs[j] for a symbolic j, loop-free (concrete bound)
func v12at(xs *[vMaxN]v12elem, j int) v12elem {
	return vrt.Ite(j == 0, xs[0], vrt.Ite(j == 1, xs[1], vrt.Ite(j == 2, xs[2], xs[3])))
}

// v12input: one input channel with its producer (style seq=1: pre-filled and closed)
func v12input(name string, xs *[vMaxN]v12elem, n, capc int, sent *int) chan v12elem {
	if vrt.Param("seq", 0) == 1 {
		in := make(chan v12elem, n)
		for j := 0; j < n; j++ {
			in <- xs[j]
		}
		close(in)
		*sent = n
		return in
	}
	in := make(chan v12elem, capc)
	vrt.Go(name, func() {
		for j := 0; j < n; j++ {
			in <- xs[j]
			*sent++
		}
		close(in)
	})
	return in
}

func v12producerDone(name string) bool {
	return vrt.Param("seq", 0) == 1 || vrt.Exited(name)
}

func VJoin() {
	k := vrt.Param("k", 2)
	// plain locals (captured by value): loop bounds inside goroutines stay concrete
	n0, n1, n2 := vrt.Param("n0", 1), vrt.Param("n1", 1), vrt.Param("n2", 1)
	if k < 1 { // inputs that do not exist
		n0 = 0
	}
	if k < 2 {
		n1 = 0
	}
	if k < 3 {
		n2 = 0
	}
	ns := [v12MaxK]int{n0, n1, n2}
	capc := vrt.Param("cap", 0)
	cap1 := vrt.Param("cap1", capc) // the second input may have a different capacity
	total := 0
	for i := 0; i < k; i++ {
		total += ns[i]
	}
	xs0, xs1, xs2 := v12values(0, n0), v12values(1, n1), v12values(2, n2)
	var sent [v12MaxK]int
	var ins [v12MaxK]chan v12elem
	var out <-chan v12elem
	ctx := vctx()
	switch k {
	case 0:
		out = Join[v12elem](ctx)
	case 1:
		ins[0] = v12input("p0", &xs0, ns[0], capc, &sent[0])
		out = Join(ctx, (<-chan v12elem)(ins[0]))
	case 2:
		ins[0] = v12input("p0", &xs0, ns[0], capc, &sent[0])
		ins[1] = v12input("p1", &xs1, ns[1], cap1, &sent[1])
		if vrt.Param("spread", 0) == 1 {
			// the inputs are those of the call: a caller may pass a slice with `...`
			// and reuse it as soon as Join has returned
			args := make([]<-chan v12elem, 2, 4) // with spare capacity, as a slice built by append has
			args[0], args[1] = ins[0], ins[1]
			out = Join(ctx, args...)
			idle := make(chan v12elem)
			close(idle)
			args[0], args[1] = idle, idle
		} else {
			out = Join(ctx, (<-chan v12elem)(ins[0]), (<-chan v12elem)(ins[1]))
		}
	default:
		ins[0] = v12input("p0", &xs0, ns[0], capc, &sent[0])
		ins[1] = v12input("p1", &xs1, ns[1], cap1, &sent[1])
		ins[2] = v12input("p2", &xs2, ns[2], capc, &sent[2])
		out = Join(ctx, (<-chan v12elem)(ins[0]), (<-chan v12elem)(ins[1]), (<-chan v12elem)(ins[2]))
	}
	vrt.Assert("join.out-capacity", cap(out) == k)

	got := 0
	var cur [v12MaxK]int // per-input cursor of the consumer
	vrt.Go("consumer", func() {
		for v := range out {
			got++ // counted in the same step as the receive
			t := int(v & 3)
			is0, is1, is2 := t == 0, t == 1, t == 2
			// the element its own input has at the cursor of that input
			want := vrt.Ite(is0, v12at(&xs0, cur[0]), vrt.Ite(is1, v12at(&xs1, cur[1]), v12at(&xs2, cur[2])))
			c := vrt.Ite(is0, cur[0], vrt.Ite(is1, cur[1], cur[2]))
			lim := vrt.Ite(is0, n0, vrt.Ite(is1, n1, n2))
			vrt.Assert("join.projection-order", vrt.All(t < k, c < lim, v == want))
			cur[0] += vrt.B2I(is0)
			cur[1] += vrt.B2I(is1)
			cur[2] += vrt.B2I(is2)
		}
		vrt.Cover("join.consumer-done")
	})

	// closed(out) only after every input has been closed and drained: nothing is
	// left in an input buffer and every producer has completed all its sends.
	// (An element still in the hands of a copier at that moment would make the
	// copier send on the closed channel: the panic flag; and the Final condition
	// counts the deliveries. Ghost arithmetic at every step is avoided on purpose:
	// it makes the queries an order of magnitude slower.)
	// State predicates are written without loops over captured variables.
	drained := func(i int) bool {
		return vrt.Implies(i < k, vrt.All(vrt.Closed(ins[i]), vrt.ChanLen(ins[i]) == 0, sent[i] == ns[i]))
	}
	vrt.Invariant("join.close-only-after-drained", func() bool {
		return vrt.Implies(vrt.Closed(out), vrt.All(drained(0), drained(1), drained(2)))
	})
	vrt.Final("join.complete", func() bool {
		return vrt.All(got == total, vrt.Closed(out), vrt.ChanLen(out) == 0, vrt.LibExited(), vrt.Exited("consumer"),
			cur[0] == ns[0], cur[1] == ns[1], cur[2] == ns[2], drained(0), drained(1), drained(2))
	})
	// the producers are not left blocked (registered only for the inputs that exist)
	if k >= 1 {
		vrt.Final("join.producer0-done", func() bool { return v12producerDone("p0") })
	}
	if k >= 2 {
		vrt.Final("join.producer1-done", func() bool { return v12producerDone("p1") })
	}
	if k >= 3 {
		vrt.Final("join.producer2-done", func() bool { return v12producerDone("p2") })
	}
}
