package pipe

import (
	"context"
	"time"

	"verif.local/vrt"
)

// C07 harnesses: fail-fast (Lift/LiftF) and try-and-continue (Try/TryF)
// behave as documented for EVERY failure pattern. Whether the stage function
// fails on x is the uninterpreted predicate E(x): every subset of failing
// positions is covered by one query. The error of x is verr{x}, the result of
// a non-failing x is F(x) (uninterpreted). Values and errors are read by two
// independent consumers (either may lag): the interleaving is the schedule.

type v7err struct{ x int }

func (e v7err) Error() string { return "verr" }

func v7E(x int) bool { return vrt.Pred1("E", x) }

// v7at is xs[j] for a symbolic j, loop-free
func v7at(xs *[vMaxN]int, j int) int {
	return vrt.Ite(j == 0, xs[0], vrt.Ite(j == 1, xs[1], vrt.Ite(j == 2, xs[2], xs[3])))
}

// v7first: index of the first failing element (n if there is none), loop-free result
func v7first(xs *[vMaxN]int, n int) int {
	m := n
	for i := n - 1; i >= 0; i-- {
		m = vrt.Ite(v7E(xs[i]), i, m)
	}
	return m
}

// v7nthF: "v is F of the g-th selected element" (loop-free: entries beyond n are never selected)
func v7selF(xs *[vMaxN]int, acc *[vMaxN]bool, pos *[vMaxN]int, i, g, v int) bool {
	return vrt.All(acc[i], pos[i] == g, v == vrt.UF1("F", xs[i]))
}

func v7nthF(xs *[vMaxN]int, acc *[vMaxN]bool, pos *[vMaxN]int, g, v int) bool {
	return vrt.Any(v7selF(xs, acc, pos, 0, g, v), v7selF(xs, acc, pos, 1, g, v), v7selF(xs, acc, pos, 2, g, v), v7selF(xs, acc, pos, 3, g, v))
}

// v7nthE: "e is the error of the g-th selected element"
func v7selE(xs *[vMaxN]int, acc *[vMaxN]bool, pos *[vMaxN]int, i, g int, e error) bool {
	return vrt.All(acc[i], pos[i] == g, e == error(v7err{xs[i]}))
}

func v7nthE(xs *[vMaxN]int, acc *[vMaxN]bool, pos *[vMaxN]int, g int, e error) bool {
	return vrt.Any(v7selE(xs, acc, pos, 0, g, e), v7selE(xs, acc, pos, 1, g, e), v7selE(xs, acc, pos, 2, g, e), v7selE(xs, acc, pos, 3, g, e))
}

// the stage under test: Map or FMap (param "stage"), with the adapter of the
// given mode (0 = fail-fast Lift/LiftF, 1 = Try/TryF). The stage function
// counts its calls and checks that it is applied to the elements in order.
func v7stage(ctx context.Context, in <-chan int, xs *[vMaxN]int, n int, try bool, calls *int) (<-chan int, <-chan error) {
	if vrt.Param("stage", 0) == 0 {
		f := func(x int) (int, error) {
			vrt.Assert("c07.applied-in-order", vrt.And(*calls < n, x == v7at(xs, *calls)))
			*calls++
			if v7E(x) {
				return 0, v7err{x}
			}
			return vrt.UF1("F", x), nil
		}
		if try {
			return Map(ctx, in, Try(f))
		}
		return Map(ctx, in, Lift(f))
	}
	f := func(ctx context.Context, x int, out chan<- int) error {
		vrt.Assert("c07.applied-in-order", vrt.And(*calls < n, x == v7at(xs, *calls)))
		*calls++
		if v7E(x) { // the arrow decides failure before emitting
			return v7err{x}
		}
		out <- vrt.UF1("F", x)
		return nil
	}
	if try {
		return FMap(ctx, in, TryF(f))
	}
	return FMap(ctx, in, LiftF(f))
}

// Fail-fast: exactly the results of the elements before the first failure,
// that first error once, both channels closed, nothing processed further.
func VFailFast() {
	n := vrt.Param("n", 2)
	xs := vinputs(n)
	m := v7first(&xs, n) // first failing index, n if none
	sent, got, nerr, calls := 0, 0, 0, 0
	in := vinput(&xs, n, &sent)
	out, exx := v7stage(vctx(), in, &xs, n, false, &calls)
	vrt.Go("consumer", func() {
		for v := range out {
			vrt.Assert("failfast.value", vrt.And(got < m, v == vrt.UF1("F", v7at(&xs, got))))
			got++
		}
		vrt.Cover("failfast.values-closed")
	})
	vrt.Go("errors", func() {
		for e := range exx {
			vrt.Assert("failfast.error", vrt.All(nerr == 0, m < n, e == error(v7err{v7at(&xs, m)})))
			nerr++
		}
		vrt.Cover("failfast.errors-closed")
	})
	// "without processing anything further": the function is never applied beyond the first failure
	vrt.Invariant("failfast.nothing-further", func() bool { return calls <= m+1 && calls <= n })
	// a closed channel means the stage is over: everything due was delivered before
	vrt.Invariant("failfast.error-before-close", func() bool {
		return vrt.Implies(vrt.And(vrt.Closed(exx), m < n), nerr+vrt.ChanLen(exx) == 1)
	})
	vrt.Final("failfast.complete", func() bool {
		return vrt.All(got == m, nerr == vrt.B2I(m < n), vrt.Closed(out), vrt.Closed(exx), vrt.LibExited(),
			vrt.Exited("consumer"), vrt.Exited("errors"), calls == vrt.Ite(m < n, m+1, n))
	})
}

// Fail-fast with a live upstream: the producer never closes the input (a
// long-lived source). Some element fails (assumed); the stage must still
// deliver the results before the first failure, that error once, and close
// both channels - at the failure, not when the input happens to end.
func VFailFastOpen() {
	n := vrt.Param("n", 2)
	xs := vinputs(n)
	m := v7first(&xs, n)
	vrt.Assume(m < n)
	got, nerr, calls := 0, 0, 0
	in := make(chan int, vrt.Param("cap", 0))
	vrt.Go("producer", func() {
		for i := 0; i < n; i++ {
			in <- xs[i]
		}
		// the input stays open
	})
	out, exx := v7stage(vctx(), in, &xs, n, false, &calls)
	vrt.Go("consumer", func() {
		for v := range out {
			vrt.Assert("failfast-open.value", vrt.And(got < m, v == vrt.UF1("F", v7at(&xs, got))))
			got++
		}
		vrt.Cover("failfast-open.values-closed")
	})
	vrt.Go("errors", func() {
		for e := range exx {
			vrt.Assert("failfast-open.error", vrt.All(nerr == 0, e == error(v7err{v7at(&xs, m)})))
			nerr++
		}
		vrt.Cover("failfast-open.errors-closed")
	})
	vrt.Invariant("failfast-open.nothing-further", func() bool { return calls <= m+1 })
	vrt.Final("failfast-open.complete", func() bool {
		return vrt.All(got == m, nerr == 1, vrt.Closed(out), vrt.Closed(exx), vrt.LibExited(),
			vrt.Exited("consumer"), vrt.Exited("errors"), calls == m+1)
	})
}

// Try: every failing element yields exactly one error and no output, every
// other element exactly its output, both streams in input order, both
// channels closed when the input ends.
func VTry() {
	n := vrt.Param("n", 2)
	xs := vinputs(n)
	accV, posV, wantV := vranks(&xs, n, func(x int) bool { return !v7E(x) })
	accE, posE, wantE := vranks(&xs, n, v7E)
	sent, got, nerr, calls := 0, 0, 0, 0
	in := vinput(&xs, n, &sent)
	out, exx := v7stage(vctx(), in, &xs, n, true, &calls)
	vrt.Go("consumer", func() {
		for v := range out {
			vrt.Assert("try.value", v7nthF(&xs, &accV, &posV, got, v))
			got++
		}
		vrt.Cover("try.values-closed")
	})
	vrt.Go("errors", func() {
		for e := range exx {
			vrt.Assert("try.error", v7nthE(&xs, &accE, &posE, nerr, e))
			nerr++
		}
		vrt.Cover("try.errors-closed")
	})
	vrt.Invariant("try.each-once", func() bool { return calls <= n })
	vrt.Final("try.complete", func() bool {
		return vrt.All(got == wantV, nerr == wantE, calls == n, vrt.Closed(out), vrt.Closed(exx), vrt.LibExited(),
			vrt.Exited("consumer"), vrt.Exited("errors"), vproducerDone())
	})
}

// Unfold with a fail-fast generator: seed, F(seed), F(F(seed)), ... up to and
// including the element the generator fails on (that element has been derived
// successfully; it is the application to it that fails), then that error once,
// then both channels close. The generator is forced to fail within 3 steps.
func VUnfoldFailFast() {
	capc := vrt.Param("cap", 0)
	var ss [vMaxN]int
	ss[0] = vrt.Int("seed")
	ss[1] = vrt.UF1("F", ss[0])
	ss[2] = vrt.UF1("F", ss[1])
	vrt.Assume(vrt.Any(v7E(ss[0]), v7E(ss[1]), v7E(ss[2])))
	m := v7first(&ss, 3) // the generator fails when applied to ss[m]
	got, nerr, calls := 0, 0, 0
	out, exx := Unfold(vctx(), capc, ss[0], Lift(func(x int) (int, error) {
		vrt.Assert("unfold.applied-in-order", vrt.And(calls < 3, x == v7at(&ss, calls)))
		calls++
		if v7E(x) {
			return 0, v7err{x}
		}
		return vrt.UF1("F", x), nil
	}))
	vrt.Go("consumer", func() {
		for v := range out {
			vrt.Assert("unfold.value", vrt.And(got <= m, v == v7at(&ss, got)))
			got++
		}
		vrt.Cover("unfold.values-closed")
	})
	vrt.Go("errors", func() {
		for e := range exx {
			vrt.Assert("unfold.error", vrt.And(nerr == 0, e == error(v7err{v7at(&ss, m)})))
			nerr++
		}
		vrt.Cover("unfold.errors-closed")
	})
	vrt.Invariant("unfold.nothing-further", func() bool { return calls <= m+1 })
	vrt.Final("unfold.complete", func() bool {
		return vrt.All(got == m+1, nerr == 1, calls == m+1, vrt.Closed(out), vrt.Closed(exx), vrt.LibExited(),
			vrt.Exited("consumer"), vrt.Exited("errors"))
	})
}

// Emit with a fail-fast function of the index 0,1,2,...: results of the
// indices before the first failing one, its error once, both channels closed.
// The function is forced to fail within `within` indices. (virtual clock)
func VEmitFailFast() {
	capc := vrt.Param("cap", 0)
	lim := vrt.Param("within", 2) // the function fails on one of the indices 0..within-1
	idx := [vMaxN]int{0, 1, 2, 3}
	m := v7first(&idx, lim)
	vrt.Assume(m < lim)
	got, nerr, calls := 0, 0, 0
	out, exx := Emit(vctx(), capc, time.Duration(vrt.Param("freq", 1)), Lift(func(i int) (int, error) {
		vrt.Assert("emit.applied-in-order", i == calls)
		calls++
		if v7E(i) {
			return 0, v7err{i}
		}
		return vrt.UF1("F", i), nil
	}))
	vrt.Go("consumer", func() {
		for v := range out {
			vrt.Assert("emit.value", vrt.And(got < m, v == vrt.UF1("F", got)))
			got++
		}
		vrt.Cover("emit.values-closed")
	})
	vrt.Go("errors", func() {
		for e := range exx {
			vrt.Assert("emit.error", vrt.And(nerr == 0, e == error(v7err{m})))
			nerr++
		}
		vrt.Cover("emit.errors-closed")
	})
	vrt.Invariant("emit.nothing-further", func() bool { return calls <= m+1 })
	vrt.Final("emit.complete", func() bool {
		return vrt.All(got == m, nerr == 1, calls == m+1, vrt.Closed(out), vrt.Closed(exx), vrt.LibExited(),
			vrt.Exited("consumer"), vrt.Exited("errors"))
	})
}
