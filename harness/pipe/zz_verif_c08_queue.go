package pipe

import "verif.local/vrt"

// C08, the linked queue behind pipe.New as an INDUCTIVE STEP: from every
// well-formed queue of k nodes (k <= 3: head .. tail linked through next,
// tail.next == nil, head == tail == nil when empty) one enq or deq is run with
// a sync.Pool that hands out an ARBITRARY recycled node (stale value pointer,
// stale next pointer to any existing node, to itself, or nil - forked) or a
// fresh one; the result must again be well-formed and hold exactly the
// expected values in order. One step from every valid state covers backlogs
// of any history within the size bound, including a queue that drained and
// refilled with recycled nodes.
func VQueueStep() {
	k := vrt.Param("k", 2)
	qu := newq[int]()
	var cells [4]int
	var nodes [4]*q[int]
	for i := 0; i < k; i++ {
		cells[i] = vrt.Int("v")
		nodes[i] = &q[int]{value: &cells[i]}
	}
	for i := 0; i+1 < k; i++ {
		nodes[i].next = nodes[i+1]
	}
	if k > 0 {
		qu.head, qu.tail = nodes[0], nodes[k-1]
	}
	// the node the pool will hand out: fresh, or recycled with stale contents
	stale := &q[int]{}
	staleCell := vrt.Int("stale")
	switch vrt.Choice("recycled", 3) {
	case 1:
		stale.value = &staleCell
		if j := vrt.Choice("stale-next", k+2); j < k {
			stale.next = nodes[j]
		} else if j == k {
			stale.next = stale
		}
	case 2:
		stale.value = &staleCell
	}
	qu.pool.New = func() interface{} { return stale }

	check := func(label string, want []int) {
		n := 0
		for v := qu.head; v != nil; v = v.next {
			if n >= len(want)+1 {
				break
			}
			if n < len(want) {
				vrt.Assert(label+".value", v.value != nil && *v.value == want[n])
			}
			n++
		}
		vrt.Assert(label+".length", n == len(want))
		vrt.Assert(label+".empty", (qu.head == nil) == (len(want) == 0))
		if len(want) > 0 {
			vrt.Assert(label+".tail-is-last", qu.tail != nil && qu.tail.next == nil && *qu.tail.value == want[len(want)-1])
			vrt.Assert(label+".head-value", head(qu) == want[0])
			vrt.Assert(label+".emit", emit(make(chan int), qu) != nil)
		} else {
			vrt.Assert(label+".emit-nil", emit(make(chan int), qu) == nil)
			vrt.Assert(label+".head-zero", head(qu) == 0)
		}
	}
	var want []int
	for i := 0; i < k; i++ {
		want = append(want, cells[i])
	}
	check("pre", want)
	if vrt.Param("op", 0) == 0 {
		x := vrt.Int("x")
		enq(&x, qu)
		check("enq", append(want, x))
	} else {
		if k == 0 {
			vrt.Assume(false)
		}
		got := deq(qu)
		vrt.Assert("deq.returns-head", got != nil && *got == want[0])
		check("deq", want[1:])
		// and the next enq (which may get the node just recycled) still appends
		y := vrt.Int("y")
		qu.pool.New = func() interface{} { return nodes[0] } // the node deq has just put back, contents as left
		enq(&y, qu)
		check("deq-enq", append(append([]int(nil), want[1:]...), y))
	}
	vrt.Cover("queue.step.done")
}
