package pipe

import (
	"context"

	"verif.local/vrt"
)

// C08 harness: the unbounded channel pair of pipe.New.
//   mode 0: the sender sends n values (never closes); cancel may fire at any step
//   mode 1: the sender sends n values and closes the send side; no cancel
//   recv 1: a receiver ranges over the receive side; recv 0: nobody receives
//   burst 1: all n sends have completed (buffered) before the pump starts
// Queue nodes and the per-receive cells the pump takes the address of live in
// bounded arenas. sync.Pool is modelled as "always fresh" (node reuse is
// outside the claim).

func VUnbound() {
	n := vrt.Param("n", 2)
	capc := vrt.Param("cap", 0)
	mode := vrt.Param("mode", 0)
	hasRecv := vrt.Param("recv", 1) == 1
	xs := vinputs(n)
	vrt.Arena[int](n+1, "New[")
	vrt.Arena[q[int]](n+1, "newq[")
	ctx, cancel := context.WithCancel(context.Background())
	rcv, snd := New[int](ctx, capc)
	sent, got := 0, 0
	cancelled, sentAtCancel, drained := false, 0, false
	// burst=1: the n sends complete before anything else runs (they fit the
	// buffer: cap >= n), so the pump finds them all in the input buffer - also
	// when the first thing it sees is the cancellation
	burst := vrt.Param("burst", 0) == 1
	if burst {
		for i := 0; i < n; i++ {
			snd <- xs[i]
		}
		sent = n
	}
	vrt.Go("sender", func() {
		for i := 0; i < n && !burst; i++ {
			vrt.Pace("sender")
			if !vrt.TrySend(snd, xs[i]) {
				return // the pump has shut the send side down after cancel
			}
			sent++
		}
		if mode == 1 {
			vrt.Pace("sender")
			close(snd)
		}
	})
	if hasRecv {
		vrt.Go("receiver", func() {
			for {
				vrt.Pace("receiver")
				v, ok := <-rcv
				if !ok {
					drained = true
					return
				}
				vrt.Assert("fifo", vrt.And(got < n, v == vat(&xs, n, got)))
				got++
			}
		})
	}
	if mode == 0 {
		vrt.Go("cancel", func() {
			if vrt.Flip("cancel-fires") {
				vrt.Pace("cancel")
				cancel()
				cancelled = true
				sentAtCancel = sent
			}
		})
	}
	// a send never waits for the receiver: while the context is live the sender
	// always gets through, whether or not anybody receives
	vrt.Final("sender-never-blocks", func() bool {
		if !cancelled {
			return vrt.Exited("sender") && sent == n
		}
		return true
	})
	// nothing received that was not sent, in order (fifo assert), and never more than sent
	vrt.Invariant("no-invention", func() bool { return got <= sent })
	// after cancel: every value whose send had completed is still delivered, then the receive side closes
	vrt.Final("cancel-keeps-completed-sends", func() bool {
		if cancelled && hasRecv {
			return drained && got >= sentAtCancel && vrt.LibExited()
		}
		return true
	})
	// closing the send side is a clean end of stream
	vrt.Final("sender-close-is-end-of-stream", func() bool {
		if mode == 1 && hasRecv {
			return drained && got == n && vrt.LibExited()
		}
		return true
	})
}
