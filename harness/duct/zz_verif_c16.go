package duct

// C16 harness: every well-typed, linear program of From, Join, LiftF, WrapF,
// Unit and Yield up to a length bound. The opcode of every step is a forked
// choice; the program is kept well typed by an explicit state machine over
// the target type of the live morphism (a ladder int, []int, [][]int,
// [][][]int, string, []string, *int, []*int, Void): every (opcode, live type)
// pair calls the correspondingly instantiated duct function, ill-typed pairs
// are pruned. Alongside, a specification interpreter keeps an explicit stack
// of open contexts and builds the tree the program describes; its flattening
// is the expected callback trace of a visit.
//
// The source type parameter A of Morphism[A, B] is phantom for every
// combinator but From (which records TypeOf[A]): the harness starts with
// From[A] for several A and re-wraps the result as Morphism[int, A] so that
// one set of typed variables serves all start types.

import (
	"errors"

	"verif.local/vrt"
)

// ---- type ladder

const (
	vtI0   = iota // int
	vtI1          // []int
	vtI2          // [][]int
	vtI3          // [][][]int
	vtS0          // string
	vtS1          // []string
	vtP0          // *int
	vtP1          // []*int
	vtVoid        // Void (after Yield)
)

// literal type names, independent of TypeOf: TypeOf[T]() of the ladder type
// with tag t must be exactly this string
func vtName(t int) string {
	switch t {
	case vtI0:
		return "int"
	case vtI1:
		return "[]int"
	case vtI2:
		return "[][]int"
	case vtI3:
		return "[][][]int"
	case vtS0:
		return "string"
	case vtS1:
		return "[]string"
	case vtP0:
		return "*int"
	case vtP1:
		return "[]*int"
	}
	return "?"
}

func vtUp(t int) int {
	switch t {
	case vtI0:
		return vtI1
	case vtI1:
		return vtI2
	case vtI2:
		return vtI3
	case vtS0:
		return vtS1
	case vtP0:
		return vtP1
	}
	return -1
}

func vtDown(t int) int {
	switch t {
	case vtI1:
		return vtI0
	case vtI2:
		return vtI1
	case vtI3:
		return vtI2
	case vtS1:
		return vtS0
	case vtP1:
		return vtP0
	}
	return -1
}

// ---- opcodes

const (
	voJoinSame = iota // Join  f: B -> B
	voJoinUp          // Join  f: B -> []B
	voJoinDown        // Join  f: []B -> B
	voJoinX           // Join  f: int -> string | string -> int | *int -> int
	voJoinP           // Join  f: int -> *int
	voLiftSame        // LiftF f: B -> B   on m: A -> []B
	voLiftX           // LiftF f: B -> C   on m: A -> []B  (C != B)
	voWrap            // WrapF             on m: A -> []B
	voUnit            // Unit
	voYield           // Yield (ends the program)
	voStop            // end of program
	voCount
)

// vnext is the typing relation: the target type after op on a live morphism
// of target type t, or -1 when the step is ill typed.
func vnext(t, op int) int {
	if t == vtVoid {
		return -1
	}
	switch op {
	case voJoinSame:
		return t
	case voJoinUp, voUnit:
		return vtUp(t)
	case voJoinDown, voLiftSame, voWrap:
		return vtDown(t)
	case voJoinX:
		switch t {
		case vtI0:
			return vtS0
		case vtS0, vtP0:
			return vtI0
		}
	case voJoinP:
		if t == vtI0 {
			return vtP0
		}
	case voLiftX:
		switch t {
		case vtI1:
			return vtS0
		case vtS1, vtI2, vtP1:
			return vtI0
		case vtI3:
			return vtI1
		}
	case voYield:
		return vtVoid
	}
	return -1
}

// ---- specification interpreter

const (
	vnFrom = iota
	vnMap
	vnYield
	vnSeq
)

type vnode struct {
	kind   int
	ta, tb string // type names (From/Yield: ta only)
	id     int    // payload identity (source / function / target)
	root   bool
	open   bool
	kids   []*vnode
}

type vspec struct {
	root *vnode
	open []*vnode // stack of still-open contexts, open[0] is the root
	last *vnode
	ids  int
}

func (s *vspec) fresh() int {
	s.ids++
	return s.ids
}

// a new step lands in the innermost still-open context
func (s *vspec) add(n *vnode) {
	top := s.open[len(s.open)-1]
	top.kids = append(top.kids, n)
	s.last = n
}

// LiftF/WrapF open a new nested context in the innermost open one
func (s *vspec) nest() {
	n := &vnode{kind: vnSeq, open: true}
	s.add(n)
	s.open = append(s.open, n)
}

// Unit closes the innermost open nested context (the root is never closed)
func (s *vspec) unit() {
	if len(s.open) > 1 {
		s.open[len(s.open)-1].open = false
		s.open = s.open[:len(s.open)-1]
	}
}

// ---- events

const (
	vkEnterMorphism = iota
	vkLeaveMorphism
	vkEnterSeq
	vkLeaveSeq
	vkEnterMap
	vkLeaveMap
	vkEnterFrom
	vkLeaveFrom
	vkEnterYield
	vkLeaveYield
)

type vevent struct {
	kind     int
	depth    int
	ta, tb   string
	id       int
	n        int // number of children (sequences)
	root     bool
	deferred bool
}

func vflatten(n *vnode, depth int, out []vevent) []vevent {
	k := 0
	switch n.kind {
	case vnFrom:
		k = vkEnterFrom
	case vnMap:
		k = vkEnterMap
	case vnYield:
		k = vkEnterYield
	default:
		k = vkEnterSeq
		if n.root {
			k = vkEnterMorphism
		}
	}
	e := vevent{kind: k, depth: depth, ta: n.ta, tb: n.tb, id: n.id}
	if n.kind == vnSeq {
		e.n = len(n.kids)
		e.root = n.root
		e.deferred = n.root || n.open
	}
	out = append(out, e)
	for _, c := range n.kids {
		out = vflatten(c, depth+1, out)
	}
	e.kind = k + 1
	out = append(out, e)
	return out
}

// ---- recording visitor

type vrec struct {
	trace  []vevent
	failAt int
	boom   error
	// light mode (VDuctFail): callbacks are not recorded, only their kind and
	// depth are compared with exp as they arrive. Up to the failing callback
	// the visitor answers exactly as the recording one of VDuctTrace does, so
	// the node contents of that prefix are those VDuctTrace has compared; what
	// is at stake here is what happens after the failing callback.
	light bool
	exp   []vevent
	count int
}

func (r *vrec) emit(e vevent) error {
	r.trace = append(r.trace, e)
	return r.tick(e.kind, e.depth)
}

func (r *vrec) tick(kind, depth int) error {
	i := r.count
	r.count++
	if r.light && i < len(r.exp) {
		vrt.Assert("fail.trace.prefix", kind == r.exp[i].kind && depth == r.exp[i].depth)
	}
	if i == r.failAt {
		return r.boom
	}
	return nil
}

func vid(x any) int {
	if i, ok := x.(int); ok {
		return i
	}
	return -1
}

func (r *vrec) seq(kind, depth int, node AstSeq) error {
	if r.light {
		return r.tick(kind, depth)
	}
	return r.emit(vevent{kind: kind, depth: depth, n: len(node.Seq), root: node.Root, deferred: node.Deferred})
}

func (r *vrec) OnEnterMorphism(depth int, node AstSeq) error {
	return r.seq(vkEnterMorphism, depth, node)
}
func (r *vrec) OnLeaveMorphism(depth int, node AstSeq) error {
	return r.seq(vkLeaveMorphism, depth, node)
}
func (r *vrec) OnEnterSeq(depth int, node AstSeq) error { return r.seq(vkEnterSeq, depth, node) }
func (r *vrec) OnLeaveSeq(depth int, node AstSeq) error { return r.seq(vkLeaveSeq, depth, node) }
func (r *vrec) OnEnterMap(depth int, node AstMap) error {
	if r.light {
		return r.tick(vkEnterMap, depth)
	}
	return r.emit(vevent{kind: vkEnterMap, depth: depth, ta: node.TypeA, tb: node.TypeB, id: vid(node.F)})
}
func (r *vrec) OnLeaveMap(depth int, node AstMap) error {
	if r.light {
		return r.tick(vkLeaveMap, depth)
	}
	return r.emit(vevent{kind: vkLeaveMap, depth: depth, ta: node.TypeA, tb: node.TypeB, id: vid(node.F)})
}
func (r *vrec) OnEnterFrom(depth int, node AstFrom) error {
	if r.light {
		return r.tick(vkEnterFrom, depth)
	}
	return r.emit(vevent{kind: vkEnterFrom, depth: depth, ta: node.Type, id: vid(node.Source)})
}
func (r *vrec) OnLeaveFrom(depth int, node AstFrom) error {
	if r.light {
		return r.tick(vkLeaveFrom, depth)
	}
	return r.emit(vevent{kind: vkLeaveFrom, depth: depth, ta: node.Type, id: vid(node.Source)})
}
func (r *vrec) OnEnterYield(depth int, node AstYield) error {
	if r.light {
		return r.tick(vkEnterYield, depth)
	}
	return r.emit(vevent{kind: vkEnterYield, depth: depth, ta: node.Type, id: vid(node.Target)})
}
func (r *vrec) OnLeaveYield(depth int, node AstYield) error {
	if r.light {
		return r.tick(vkLeaveYield, depth)
	}
	return r.emit(vevent{kind: vkLeaveYield, depth: depth, ta: node.Type, id: vid(node.Target)})
}

// ---- the real program, kept well typed

type vprog struct {
	tag int
	i0  Morphism[int, int]
	i1  Morphism[int, []int]
	i2  Morphism[int, [][]int]
	i3  Morphism[int, [][][]int]
	s0  Morphism[int, string]
	s1  Morphism[int, []string]
	p0  Morphism[int, *int]
	p1  Morphism[int, []*int]
	v   Morphism[int, Void]
}

func vfrom[A any](s *vspec) *AstSeq {
	id := s.fresh()
	s.root = &vnode{kind: vnSeq, root: true, open: true}
	s.open = []*vnode{s.root}
	s.add(&vnode{kind: vnFrom, id: id})
	return From(L1[A](id)).code
}

func vjoin[B, C any](s *vspec, m Morphism[int, B]) Morphism[int, C] {
	id := s.fresh()
	s.add(&vnode{kind: vnMap, id: id})
	return Join(L2[B, C](id), m)
}

func vlift[B, C any](s *vspec, m Morphism[int, []B]) Morphism[int, C] {
	id := s.fresh()
	s.nest()
	s.add(&vnode{kind: vnMap, id: id})
	return LiftF(L2[B, C](id), m)
}

func vwrap[B any](s *vspec, m Morphism[int, []B]) Morphism[int, B] {
	s.nest()
	return WrapF(m)
}

func vunit[B any](s *vspec, m Morphism[int, B]) Morphism[int, []B] {
	s.unit()
	return Unit(m)
}

func vyield[B any](s *vspec, m Morphism[int, B]) Morphism[int, Void] {
	id := s.fresh()
	s.add(&vnode{kind: vnYield, id: id})
	return Yield(L1[B](id), m)
}

func (p *vprog) start(s *vspec, k int) {
	switch k {
	case 0:
		p.tag = vtI0
		p.i0 = Morphism[int, int]{code: vfrom[int](s)}
	case 1:
		p.tag = vtI2
		p.i2 = Morphism[int, [][]int]{code: vfrom[[][]int](s)}
	case 2:
		p.tag = vtS0
		p.s0 = Morphism[int, string]{code: vfrom[string](s)}
	case 3:
		p.tag = vtP1
		p.p1 = Morphism[int, []*int]{code: vfrom[[]*int](s)}
	default:
		vrt.Assume(false)
	}
	s.last.ta = vtName(p.tag)
}

func (p *vprog) step(s *vspec, op int) {
	t := p.tag
	nt := vnext(t, op)
	vrt.Assume(nt >= 0)
	switch op {
	case voJoinSame:
		switch t {
		case vtI0:
			p.i0 = vjoin[int, int](s, p.i0)
		case vtI1:
			p.i1 = vjoin[[]int, []int](s, p.i1)
		case vtI2:
			p.i2 = vjoin[[][]int, [][]int](s, p.i2)
		case vtI3:
			p.i3 = vjoin[[][][]int, [][][]int](s, p.i3)
		case vtS0:
			p.s0 = vjoin[string, string](s, p.s0)
		case vtS1:
			p.s1 = vjoin[[]string, []string](s, p.s1)
		case vtP0:
			p.p0 = vjoin[*int, *int](s, p.p0)
		case vtP1:
			p.p1 = vjoin[[]*int, []*int](s, p.p1)
		}
	case voJoinUp:
		switch t {
		case vtI0:
			p.i1 = vjoin[int, []int](s, p.i0)
		case vtI1:
			p.i2 = vjoin[[]int, [][]int](s, p.i1)
		case vtI2:
			p.i3 = vjoin[[][]int, [][][]int](s, p.i2)
		case vtS0:
			p.s1 = vjoin[string, []string](s, p.s0)
		case vtP0:
			p.p1 = vjoin[*int, []*int](s, p.p0)
		}
	case voJoinDown:
		switch t {
		case vtI1:
			p.i0 = vjoin[[]int, int](s, p.i1)
		case vtI2:
			p.i1 = vjoin[[][]int, []int](s, p.i2)
		case vtI3:
			p.i2 = vjoin[[][][]int, [][]int](s, p.i3)
		case vtS1:
			p.s0 = vjoin[[]string, string](s, p.s1)
		case vtP1:
			p.p0 = vjoin[[]*int, *int](s, p.p1)
		}
	case voJoinX:
		switch t {
		case vtI0:
			p.s0 = vjoin[int, string](s, p.i0)
		case vtS0:
			p.i0 = vjoin[string, int](s, p.s0)
		case vtP0:
			p.i0 = vjoin[*int, int](s, p.p0)
		}
	case voJoinP:
		p.p0 = vjoin[int, *int](s, p.i0)
	case voLiftSame:
		switch t {
		case vtI1:
			p.i0 = vlift[int, int](s, p.i1)
		case vtI2:
			p.i1 = vlift[[]int, []int](s, p.i2)
		case vtI3:
			p.i2 = vlift[[][]int, [][]int](s, p.i3)
		case vtS1:
			p.s0 = vlift[string, string](s, p.s1)
		case vtP1:
			p.p0 = vlift[*int, *int](s, p.p1)
		}
	case voLiftX:
		switch t {
		case vtI1:
			p.s0 = vlift[int, string](s, p.i1)
		case vtS1:
			p.i0 = vlift[string, int](s, p.s1)
		case vtI2:
			p.i0 = vlift[[]int, int](s, p.i2)
		case vtP1:
			p.i0 = vlift[*int, int](s, p.p1)
		case vtI3:
			p.i1 = vlift[[][]int, []int](s, p.i3)
		}
	case voWrap:
		switch t {
		case vtI1:
			p.i0 = vwrap[int](s, p.i1)
		case vtI2:
			p.i1 = vwrap[[]int](s, p.i2)
		case vtI3:
			p.i2 = vwrap[[][]int](s, p.i3)
		case vtS1:
			p.s0 = vwrap[string](s, p.s1)
		case vtP1:
			p.p0 = vwrap[*int](s, p.p1)
		}
	case voUnit:
		switch t {
		case vtI0:
			p.i1 = vunit[int](s, p.i0)
		case vtI1:
			p.i2 = vunit[[]int](s, p.i1)
		case vtI2:
			p.i3 = vunit[[][]int](s, p.i2)
		case vtS0:
			p.s1 = vunit[string](s, p.s0)
		case vtP0:
			p.p1 = vunit[*int](s, p.p0)
		}
	case voYield:
		switch t {
		case vtI0:
			p.v = vyield[int](s, p.i0)
		case vtI1:
			p.v = vyield[[]int](s, p.i1)
		case vtI2:
			p.v = vyield[[][]int](s, p.i2)
		case vtI3:
			p.v = vyield[[][][]int](s, p.i3)
		case vtS0:
			p.v = vyield[string](s, p.s0)
		case vtS1:
			p.v = vyield[[]string](s, p.s1)
		case vtP0:
			p.v = vyield[*int](s, p.p0)
		case vtP1:
			p.v = vyield[[]*int](s, p.p1)
		}
	default:
		vrt.Assume(false)
	}
	p.tag = nt
	// expected type names: the literal names of the Go type parameters the step
	// was instantiated with (the real nodes take theirs from TypeOf)
	switch op {
	case voJoinSame, voJoinUp, voJoinDown, voJoinX, voJoinP:
		s.last.ta, s.last.tb = vtName(t), vtName(nt)
	case voLiftSame, voLiftX:
		s.last.ta, s.last.tb = vtName(vtDown(t)), vtName(nt)
	case voYield:
		s.last.ta = vtName(t)
	}
}

func (p *vprog) apply(v Visitor) error {
	switch p.tag {
	case vtI0:
		return p.i0.Apply(v)
	case vtI1:
		return p.i1.Apply(v)
	case vtI2:
		return p.i2.Apply(v)
	case vtI3:
		return p.i3.Apply(v)
	case vtS0:
		return p.s0.Apply(v)
	case vtS1:
		return p.s1.Apply(v)
	case vtP0:
		return p.p0.Apply(v)
	case vtP1:
		return p.p1.Apply(v)
	}
	return p.v.Apply(v)
}

// vbuild forks over every well-typed program of at most `steps` steps after
// From. The start type and the first opcodes may be fixed by job
// parameters (start, op0, op1, op2) to split the exploration over parallel jobs.
func vbuild() (*vprog, []vevent) {
	steps := vrt.Param("steps", 5)
	s := &vspec{}
	p := &vprog{}
	k := vrt.Param("start", -1)
	if k < 0 {
		k = vrt.Choice("start", 4)
	}
	p.start(s, k)
	for i := 0; i < steps; i++ {
		op := -1
		if i == 0 {
			op = vrt.Param("op0", -1)
		} else if i == 1 {
			op = vrt.Param("op1", -1)
		} else if i == 2 {
			op = vrt.Param("op2", -1)
		}
		if op < 0 {
			// fork over the steps that are well typed here (and stop)
			var ops []int
			for o := 0; o < voCount; o++ {
				if o == voStop || vnext(p.tag, o) >= 0 {
					ops = append(ops, o)
				}
			}
			op = ops[vrt.Choice("op", len(ops))]
		}
		if op == voStop {
			break
		}
		p.step(s, op)
		if op == voYield {
			break
		}
	}
	if len(s.open) > 2 {
		vrt.Cover("nest.depth2")
	}
	return p, vflatten(s.root, 0, nil)
}

func vsameEvent(a, b vevent) bool {
	return a.kind == b.kind && a.depth == b.depth && a.ta == b.ta && a.tb == b.tb &&
		a.id == b.id && a.n == b.n && a.root == b.root && a.deferred == b.deferred
}

// vcompare: got must equal the first want events of the expected trace.
func vcompare(got, exp []vevent, want int) {
	vrt.Assert("trace.len", len(got) == want)
	for i := range got {
		if i >= len(exp) {
			break
		}
		g, e := got[i], exp[i]
		vrt.Assert("trace.kind", g.kind == e.kind)
		vrt.Assert("trace.depth", g.depth == e.depth)
		vrt.Assert("trace.type", g.ta == e.ta && g.tb == e.tb)
		vrt.Assert("trace.payload", g.id == e.id)
		vrt.Assert("trace.children", g.n == e.n)
		vrt.Assert("trace.flags", g.root == e.root && g.deferred == e.deferred)
	}
}

// vbrackets checks the shape of a trace on its own, without the specification:
// depth equals the number of enclosing unfinished enters (so the first
// callback is at depth 0 and children are one deeper than their parent), every
// leave matches the most recent unfinished enter (same kind, depth and node),
// exactly one node sits at depth 0 and it is the only root morphism.
func vbrackets(tr []vevent, complete bool) {
	var stk []vevent
	roots, tops := 0, 0
	for _, e := range tr {
		if e.kind%2 == 0 {
			vrt.Assert("bracket.child-depth", e.depth == len(stk))
			if e.depth == 0 {
				tops++
			}
			if e.kind == vkEnterMorphism {
				roots++
				vrt.Assert("root.at-depth-0", e.depth == 0 && e.root)
			}
			if e.kind == vkEnterSeq {
				vrt.Assert("seq.not-root", !e.root)
			}
			stk = append(stk, e)
			continue
		}
		vrt.Assert("bracket.leave-has-enter", len(stk) > 0)
		if len(stk) == 0 {
			continue
		}
		top := stk[len(stk)-1]
		stk = stk[:len(stk)-1]
		top.kind++
		vrt.Assert("bracket.leave-matches-enter", vsameEvent(top, e))
	}
	if len(tr) > 0 {
		vrt.Assert("root.first", tr[0].kind == vkEnterMorphism)
		vrt.Assert("root.single", roots == 1 && tops == 1)
	}
	if complete {
		vrt.Assert("bracket.closed", len(stk) == 0)
		vrt.Assert("root.last", len(tr) > 0 && tr[len(tr)-1].kind == vkLeaveMorphism)
	}
}

// VDuctTrace: the visit of the built morphism reports exactly the tree the
// specification interpreter describes.
func VDuctTrace() {
	p, exp := vbuild()
	r := &vrec{failAt: -1}
	err := p.apply(r)
	vrt.Assert("visit.noerr", err == nil)
	vcompare(r.trace, exp, len(exp))
	vbrackets(r.trace, true)
	vrt.Cover("trace.done")
}

// VDuctFail: the visitor fails at every callback position in turn (and
// never): the visit stops with that callback and returns exactly that error.
// The positions are enumerated by a loop over fresh recorders rather than by
// a fork: a visit does not change the tree (every later visit is compared with
// the same expected trace), and the program is built once per path.
func VDuctFail() {
	p, exp := vbuild()
	boom := errors.New("boom")
	for failAt := 0; failAt <= len(exp); failAt++ {
		r := &vrec{failAt: failAt, boom: boom, light: true, exp: exp}
		err := p.apply(r)
		want := len(exp)
		if failAt < len(exp) {
			want = failAt + 1
			vrt.Assert("fail.err", err == boom)
		} else {
			vrt.Assert("fail.noerr", err == nil)
		}
		vrt.Assert("fail.trace.len", r.count == want)
	}
	// the aborted visits left the tree as it was
	r := &vrec{failAt: -1}
	vrt.Assert("visit.noerr", p.apply(r) == nil)
	vcompare(r.trace, exp, len(exp))
	vrt.Cover("fail.done")
}
