package pair

// C15 harness: expression trees over pair.From, TakeWhile, DropWhile, Filter,
// Map, Plus, Join, FromSeq (leaves built from a plain seq) and ToSeq (root),
// compared with a reference evaluator over a list of (key, value) pairs.
// Keys and values are independent symbolic values; predicates, mappings and
// selectors are binary uninterpreted functions, so (k, v) vs (v, k) differ.

import (
	"errors"

	"github.com/fogfish/golem/trait/seq"
	"verif.local/vrt"
)

type vkv struct{ k, v int }

func vP1(k, v int) bool { return vrt.Pred2("P1", k, v) }
func vP2(k, v int) bool { return vrt.Pred2("P2", k, v) }
func vF(k, v int) int   { return vrt.UF2("F", k, v) }

func vSel(k, v int) Seq[int, int] {
	switch vrt.UF2("S", k, v) & 3 {
	case 0:
		return nil
	case 1:
		return From(vrt.UF2("JK", k, v), vrt.UF2("JV", k, v))
	}
	return Plus(From(vrt.UF2("JK", k, v), vrt.UF2("JV", k, v)), From(vrt.UF2("JK2", k, v), vrt.UF2("JV2", k, v)))
}

func vSelRef(k, v int) []vkv {
	switch vrt.UF2("S", k, v) & 3 {
	case 0:
		return nil
	case 1:
		return []vkv{{vrt.UF2("JK", k, v), vrt.UF2("JV", k, v)}}
	}
	return []vkv{{vrt.UF2("JK", k, v), vrt.UF2("JV", k, v)}, {vrt.UF2("JK2", k, v), vrt.UF2("JV2", k, v)}}
}

// leaf built from a plain sequence: each element yields no pair or one pair
// (VPairFromSeq exercises selectors that yield longer runs)
func vLeafSel(x int) Seq[int, int] {
	if vrt.Pred1("LS", x) {
		return nil
	}
	return From(vrt.UF1("LK", x), vrt.UF1("LV", x))
}

func vLeafSelRef(x int) []vkv {
	if vrt.Pred1("LS", x) {
		return nil
	}
	return []vkv{{vrt.UF1("LK", x), vrt.UF1("LV", x)}}
}

const (
	vkNil = iota
	vkFrom
	vkFromSeq
	vkTakeWhile
	vkDropWhile
	vkFilter
	vkMap
	vkJoin
	vkPlus
	vkCount
)

var vnodes int

func vbuild(depth int, forced int) (Seq[int, int], []vkv) {
	kind := forced
	if vnodes == 1 {
		kind = vrt.Param("k1", -1)
		if depth == 0 && kind > vkFromSeq {
			vrt.Assume(false)
		}
	}
	vnodes++
	if kind < 0 {
		if depth == 0 {
			kind = vrt.Choice("leaf", 3)
		} else {
			kind = vrt.Choice("node", vkCount)
		}
	}
	switch kind {
	case vkNil:
		return nil, nil
	case vkFrom:
		k, v := vrt.Int("k"), vrt.Int("v")
		return From(k, v), []vkv{{k, v}}
	case vkFromSeq:
		// two elements, each yielding no pair or one: the leaf denotes 0, 1 or 2 pairs
		// (other lengths and longer runs: VPairFromSeq)
		n := 2
		xs := make([]int, n)
		var out []vkv
		for i := range xs {
			xs[i] = vrt.Int("x")
			out = append(out, vLeafSelRef(xs[i])...)
		}
		return FromSeq(seq.FromSlice(xs), vLeafSel), out
	case vkTakeWhile:
		s, r := vbuild(depth-1, -1)
		var out []vkv
		for _, e := range r {
			if !vP1(e.k, e.v) {
				break
			}
			out = append(out, e)
		}
		return TakeWhile(s, vP1), out
	case vkDropWhile:
		s, r := vbuild(depth-1, -1)
		i := 0
		for i < len(r) && vP1(r[i].k, r[i].v) {
			i++
		}
		return DropWhile(s, vP1), append([]vkv(nil), r[i:]...)
	case vkFilter:
		s, r := vbuild(depth-1, -1)
		var out []vkv
		for _, e := range r {
			if vP2(e.k, e.v) {
				out = append(out, e)
			}
		}
		return Filter(s, vP2), out
	case vkMap:
		s, r := vbuild(depth-1, -1)
		var out []vkv
		for _, e := range r {
			out = append(out, vkv{e.k, vF(e.k, e.v)})
		}
		return Map(s, vF), out
	case vkJoin:
		s, r := vbuild(depth-1, -1)
		var out []vkv
		for _, e := range r {
			out = append(out, vSelRef(e.k, e.v)...)
		}
		return Join(s, vSel), out
	case vkPlus:
		a, ra := vbuild(depth-1, -1)
		b, rb := vbuild(depth-1, -1)
		return Plus(a, b), append(append([]vkv(nil), ra...), rb...)
	}
	vrt.Assume(false)
	return nil, nil
}

// VPairDrain: the documented loop yields the reference pairs; Key() and
// Value() are read in both orders at each position.
func VPairDrain() {
	vnodes = 0
	s, ref := vbuild(vrt.Param("depth", 2), vrt.Param("k0", -1))
	var got []vkv
	for has := s != nil; has; has = s.Next() {
		v1 := s.Value()
		k := s.Key()
		v2 := s.Value()
		vrt.Assert("value.stable", v1 == v2)
		got = append(got, vkv{k, v1})
	}
	vrt.Assert("drain.len", len(got) == len(ref))
	for i := range got {
		if i < len(ref) {
			vrt.Assert("drain.key", got[i].k == vrt.Named("rk", ref[i].k))
			vrt.Assert("drain.value", got[i].v == vrt.Named("rv", ref[i].v))
		}
	}
	vrt.Cover("drain.done")
}

// VPairForEach: ForEach visits the pairs in order and stops at the first error.
func VPairForEach() {
	vnodes = 0
	s, ref := vbuild(vrt.Param("depth", 2), vrt.Param("k0", -1))
	failAt := vrt.Choice("failAt", len(ref)+1)
	boom := errors.New("boom")
	var seen []vkv
	err := ForEach(s, func(k, v int) error {
		seen = append(seen, vkv{k, v})
		if len(seen)-1 == failAt {
			return boom
		}
		return nil
	})
	want := len(ref)
	if failAt < len(ref) {
		want = failAt + 1
		vrt.Assert("foreach.err", err == boom)
	} else {
		vrt.Assert("foreach.noerr", err == nil)
	}
	vrt.Assert("foreach.count", len(seen) == want)
	for i := range seen {
		if i < len(ref) {
			vrt.Assert("foreach.key", seen[i].k == vrt.Named("rk", ref[i].k))
			vrt.Assert("foreach.value", seen[i].v == vrt.Named("rv", ref[i].v))
		}
	}
	vrt.Cover("foreach.done")
}

// VPairFromSeq: FromSeq over a plain sequence of up to 3 elements whose
// selector yields nil, one pair or a run of two pairs (nil in the middle and
// at both ends included).
func VPairFromSeq() {
	n := vrt.Choice("len", 4)
	xs := make([]int, n)
	var ref []vkv
	sel := func(x int) Seq[int, int] {
		switch vrt.UF1("FS", x) & 3 {
		case 0:
			return nil
		case 1:
			return From(vrt.UF1("FK", x), vrt.UF1("FV", x))
		}
		return Plus(From(vrt.UF1("FK", x), vrt.UF1("FV", x)), From(vrt.UF1("FK2", x), vrt.UF1("FV2", x)))
	}
	for i := range xs {
		xs[i] = vrt.Int("x")
		switch vrt.UF1("FS", xs[i]) & 3 {
		case 0:
		case 1:
			ref = append(ref, vkv{vrt.UF1("FK", xs[i]), vrt.UF1("FV", xs[i])})
		default:
			ref = append(ref, vkv{vrt.UF1("FK", xs[i]), vrt.UF1("FV", xs[i])}, vkv{vrt.UF1("FK2", xs[i]), vrt.UF1("FV2", xs[i])})
		}
	}
	s := FromSeq(seq.FromSlice(xs), sel)
	var got []vkv
	for has := s != nil; has; has = s.Next() {
		got = append(got, vkv{s.Key(), s.Value()})
	}
	vrt.Assert("fromseq.len", len(got) == len(ref))
	for i := range got {
		if i < len(ref) {
			vrt.Assert("fromseq.key", got[i].k == vrt.Named("rk", ref[i].k))
			vrt.Assert("fromseq.value", got[i].v == vrt.Named("rv", ref[i].v))
		}
	}
	vrt.Cover("fromseq.done")
}

// VPairToSeq: crossing back into a plain sequence.
func VPairToSeq() {
	vnodes = 0
	s, ref := vbuild(vrt.Param("depth", 2), vrt.Param("k0", -1))
	sel := func(k, v int) seq.Seq[int] {
		switch vrt.UF2("TS", k, v) & 3 {
		case 0:
			return nil
		case 1:
			return seq.From(vrt.UF2("TH", k, v))
		case 2:
			return seq.FromSlice([]int{vrt.UF2("TH1", k, v)})
		}
		return seq.FromSlice([]int{vrt.UF2("TH1", k, v), vrt.UF2("TH2", k, v)})
	}
	var want []int
	for _, e := range ref {
		switch vrt.UF2("TS", e.k, e.v) & 3 {
		case 0:
		case 1:
			want = append(want, vrt.UF2("TH", e.k, e.v))
		case 2:
			want = append(want, vrt.UF2("TH1", e.k, e.v))
		default:
			want = append(want, vrt.UF2("TH1", e.k, e.v), vrt.UF2("TH2", e.k, e.v))
		}
	}
	t := ToSeq(s, sel)
	var got []int
	for has := t != nil; has; has = t.Next() {
		got = append(got, t.Value())
	}
	vrt.Assert("toseq.len", len(got) == len(want))
	for i := range got {
		if i < len(want) {
			vrt.Assert("toseq.elem", got[i] == vrt.Named("w", want[i]))
		}
	}
	vrt.Cover("toseq.done")
}
