package seq

// C14 harness: every expression tree over From, FromSlice, TakeWhile,
// DropWhile, Filter, Map, Plus, Join (nil = empty) up to a depth bound, built
// by a recursive builder whose node kinds are forked choices; element values,
// predicates, mappings and the flat-map selector are symbolic /
// uninterpreted. The result of the documented drain loop is compared with a
// reference evaluator over plain slices.

import (
	"errors"

	"verif.local/vrt"
)

func vP1(x int) bool { return vrt.Pred1("P1", x) }
func vP2(x int) bool { return vrt.Pred1("P2", x) }
func vF(x int) int   { return vrt.UF1("F", x) }

// flat-map selector: nil, a single element, or a slice of one or two elements,
// chosen by an uninterpreted function of the element
func vSel(x int) Seq[int] {
	switch vrt.UF1("S", x) & 3 {
	case 0:
		return nil
	case 1:
		return From(vrt.UF1("H", x))
	case 2:
		return FromSlice([]int{vrt.UF1("H1", x)})
	}
	return FromSlice([]int{vrt.UF1("H1", x), vrt.UF1("H2", x)})
}

func vSelRef(x int) []int {
	switch vrt.UF1("S", x) & 3 {
	case 0:
		return nil
	case 1:
		return []int{vrt.UF1("H", x)}
	case 2:
		return []int{vrt.UF1("H1", x)}
	}
	return []int{vrt.UF1("H1", x), vrt.UF1("H2", x)}
}

type vsrc struct {
	live []int // slice handed to the library
	copy []int // private copy to detect modification
}

var vsources []*vsrc

const (
	vkNil = iota
	vkFrom
	vkSlice
	vkTakeWhile
	vkDropWhile
	vkFilter
	vkMap
	vkJoin
	vkPlus
	vkCount
)

var vnodes int

// vbuild returns a real sequence and the list it must denote. The kinds of the
// first two nodes in pre-order may be fixed by job parameters (k0, k1) so that
// the exploration is split over parallel jobs.
func vbuild(depth int, maxLeaf int, forced int) (Seq[int], []int) {
	kind := forced
	if vnodes == 1 {
		kind = vrt.Param("k1", -1)
		if depth == 0 && kind > vkSlice {
			vrt.Assume(false)
		}
	}
	vnodes++
	if kind < 0 {
		if depth == 0 {
			kind = vrt.Choice("leaf", 3)
		} else {
			kind = vrt.Choice("node", vkCount)
		}
	}
	switch kind {
	case vkNil:
		return nil, nil
	case vkFrom:
		x := vrt.Int("x")
		return From(x), []int{x}
	case vkSlice:
		n := vrt.Choice("len", maxLeaf+1)
		xs := make([]int, n)
		for i := range xs {
			xs[i] = vrt.Int("x")
		}
		src := &vsrc{live: xs, copy: append([]int(nil), xs...)}
		vsources = append(vsources, src)
		return FromSlice(xs), src.copy
	case vkTakeWhile:
		s, r := vbuild(depth-1, maxLeaf, -1)
		var out []int
		for _, x := range r {
			if !vP1(x) {
				break
			}
			out = append(out, x)
		}
		return TakeWhile(s, vP1), out
	case vkDropWhile:
		s, r := vbuild(depth-1, maxLeaf, -1)
		i := 0
		for i < len(r) && vP1(r[i]) {
			i++
		}
		return DropWhile(s, vP1), append([]int(nil), r[i:]...)
	case vkFilter:
		s, r := vbuild(depth-1, maxLeaf, -1)
		var out []int
		for _, x := range r {
			if vP2(x) {
				out = append(out, x)
			}
		}
		return Filter(s, vP2), out
	case vkMap:
		s, r := vbuild(depth-1, maxLeaf, -1)
		var out []int
		for _, x := range r {
			out = append(out, vF(x))
		}
		return Map(s, vF), out
	case vkJoin:
		s, r := vbuild(depth-1, maxLeaf, -1)
		var out []int
		for _, x := range r {
			out = append(out, vSelRef(x)...)
		}
		return Join(s, vSel), out
	case vkPlus:
		a, ra := vbuild(depth-1, maxLeaf, -1)
		rd := depth - 1
		if vrt.Param("spine", 0) == 1 {
			rd = 0 // left-spine trees: the right operand of a Plus is a leaf
		}
		b, rb := vbuild(rd, maxLeaf, -1)
		return Plus(a, b), append(append([]int(nil), ra...), rb...)
	}
	vrt.Assume(false)
	return nil, nil
}

func vdrain(s Seq[int]) []int {
	var out []int
	for has := s != nil; has; has = s.Next() {
		out = append(out, s.Value())
	}
	return out
}

func vsourcesIntact() {
	for _, s := range vsources {
		vrt.Assert("source.len", len(s.live) == len(s.copy))
		for i := range s.copy {
			vrt.Assert("source.elem", s.live[i] == s.copy[i])
		}
	}
}

// VSeqDrain: drain equals the reference list.
func VSeqDrain() {
	vsources, vnodes = nil, 0
	s, ref := vbuild(vrt.Param("depth", 2), vrt.Param("maxleaf", 2), vrt.Param("k0", -1))
	got := vdrain(s)
	vrt.Assert("drain.len", len(got) == len(ref))
	for i := range got {
		if i < len(ref) {
			vrt.Assert("drain.elem", got[i] == vrt.Named("r", ref[i]))
		}
	}
	vrt.Assert("nil-iff-empty", (s == nil) == (len(ref) == 0) || s != nil)
	vsourcesIntact()
	vrt.Cover("drain.done")
}

// VSeqForEach: ForEach visits the list in order and stops with the first error.
func VSeqForEach() {
	vsources, vnodes = nil, 0
	s, ref := vbuild(vrt.Param("depth", 2), vrt.Param("maxleaf", 2), vrt.Param("k0", -1))
	failAt := vrt.Choice("failAt", len(ref)+1) // == len(ref): never fails
	boom := errors.New("boom")
	var seen []int
	err := ForEach(s, func(x int) error {
		seen = append(seen, x)
		if len(seen)-1 == failAt {
			return boom
		}
		return nil
	})
	want := len(ref)
	if failAt < len(ref) {
		want = failAt + 1
		vrt.Assert("foreach.err", err == boom)
	} else {
		vrt.Assert("foreach.noerr", err == nil)
	}
	vrt.Assert("foreach.count", len(seen) == want)
	for i := range seen {
		if i < len(ref) {
			vrt.Assert("foreach.elem", seen[i] == vrt.Named("r", ref[i]))
		}
	}
	vsourcesIntact()
	vrt.Cover("foreach.done")
}
