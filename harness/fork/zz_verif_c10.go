package fork

import (
	"context"

	"github.com/fogfish/golem/pure/monoid"
	"verif.local/vrt"
)

// C10 harness: fork.Fold with `par` workers delivers exactly one value, the fold
// of the input from the monoid's identity, and then closes its result channel -
// for every input, every interleaving, and every commutative monoid of the
// families below; the identity element is a solver variable.
//
// Job parameters: n input length, par worker count, cap producer capacity, mon:
//   0  a (+) b = a ^ b ^ e   with symbolic identity e (commutative monoid for every e;
//      no carries: cheap for the solver, used for the larger configurations)
//   1  a (+) b = a + b - e   with symbolic identity e (commutative monoid for every e)
//   2  bit-wise and, identity all-ones
//   3  max, identity the minimal value of the type
// The expected value is computed sequentially in the set-up exactly as
// pipe.Fold does (left fold starting from Empty()). ops counts the
// applications of the operation: n (one per element, in the workers) + par
// (the collector merges one partial result per worker).

// The element type is uint8 (fork.Fold is generic and cannot inspect its
// elements): the arithmetic is that of Z_256, which keeps the equivalence of
// differently associated sums cheap for the solver; parameter wide=1 runs the
// same check over 64-bit ints.

func v10op[T uint8 | int](e, a, b T) T {
	switch vrt.Param("mon", 0) {
	case 1:
		return a + b - e
	case 2:
		return a & b
	case 3:
		return vrt.Ite(a < b, b, a)
	}
	return a ^ b ^ e
}

func v10fold[T uint8 | int](conv func(int) T) {
	n, par := vrt.Param("n", 2), vrt.Param("par", 2)
	var xs [v9MaxN]T
	for i := 0; i < n; i++ {
		xs[i] = conv(vrt.Int("x"))
	}
	e := conv(vrt.Int("e"))
	var zero T
	switch vrt.Param("mon", 0) {
	case 2:
		e = ^zero
	case 3:
		e = zero // identity of max over the unsigned type; for int: replaced below
		if vrt.Param("wide", 0) == 1 {
			e = conv(-1 << 63)
		}
	}
	want := e
	for i := 0; i < n; i++ {
		want = v10op(e, want, xs[i])
	}
	got, ops := 0, 0
	ctx, cancel := context.WithCancel(context.Background())
	_ = cancel
	in := make(chan T, vrt.Param("cap", 0))
	vrt.Go("producer", func() {
		for i := 0; i < vrt.Param("n", 2); i++ {
			vrt.Pace("producer")
			in <- xs[i]
		}
		vrt.Pace("producer")
		close(in)
	})
	out := Fold(ctx, par, in, monoid.FromOp(e, func(a, b T) T {
		if vrt.Param("noops", 0) == 0 {
			ops++
		}
		return v10op(e, a, b)
	}))
	vrt.Go("consumer", func() {
		for {
			vrt.Pace("consumer")
			v, more := <-out
			if !more {
				break
			}
			vrt.Assert("fold.value", vrt.And(got == 0, v == want))
			got++
		}
		vrt.Cover("fold.consumer-done")
	})
	vrt.Final("fold.complete", func() bool {
		return got == 1 && (vrt.Param("noops", 0) == 1 || ops == vrt.Param("n", 2)+vrt.Param("par", 2)) && vrt.Closed(out) && vrt.LibExited() &&
			vrt.Exited("consumer") && vrt.Exited("producer")
	})
}

func VForkFold() {
	if vrt.Param("wide", 0) == 1 {
		v10fold(func(x int) int { return x })
	} else {
		v10fold(func(x int) uint8 { return uint8(x) })
	}
}
