package fork

import (
	"context"

	"verif.local/vrt"
)

// C09 harnesses: the parallel (fork) stages Map, FMap, Filter, Partition,
// ForEach, Void with `par` workers apply the user function exactly once to every
// input element and deliver exactly the multiset of results of the sequential
// stage - for every input, every stage function (uninterpreted), every failing
// set (uninterpreted predicate E) and every interleaving (which worker takes
// which element, in which order results are delivered: all schedule).
//
// Job parameters (concrete, case split): n input length, par worker count,
// cap producer channel capacity, mode 0 Pure / 1 Try / 2 Lift, cancel 1 = a
// canceller goroutine may fire at any step, take -1 = consumers receive until
// their channel is closed, k >= 0 = every consumer receives k values and then
// stops for good (0: nobody ever receives).
//
// Ghost state: calls[i] applications of the user function to element i,
// seen[i] received values equal to image slot i, sent completed producer sends.
//
// Final conditions (at every quiescent state of every run):
//   *.closed        cancelled, or consumers that never stop  =>  all outputs
//                   closed and every library goroutine (workers, closer) returned
//   *.nothing-lost  not cancelled, eager consumers  =>  every result computed has
//                   been delivered (got == number of successful applications,
//                   errors == number of failing applications)
//   *.complete      additionally no fail-fast abort  =>  producer done, every
//                   element applied exactly once, received multiset == image multiset
// Assertions at every step: the argument of every application is an input
// element, applied at most once; every received value is in the image and not
// received more often than its multiplicity; (always) no panic, i.e. no send on
// a closed channel, no double close, no negative WaitGroup counter.

// v9failing: the failing set of the job's mode (empty for Pure)
func v9failing(xs *[v9MaxN]int) (bad, good [v9MaxN]bool, nbad int) {
	for i := 0; i < v9n(); i++ {
		bad[i] = v9mode() != 0 && v9E(xs[i])
		good[i] = !bad[i]
		nbad += vrt.B2I(bad[i])
	}
	return
}

// v9lift wraps an either-function according to the job's mode
func v9lift[B any](f func(int) (B, error)) F[int, B] {
	if v9mode() == 1 {
		return Try(f)
	}
	return Lift(f)
}

// v9quiet: the situations in which the stage must have wound up completely
func v9quiet(ctx context.Context) bool { return v9take() < 0 || v9cancelled(ctx) }

// v9live: not cancelled and every consumer keeps receiving
func v9live(ctx context.Context) bool { return v9take() < 0 && !v9cancelled(ctx) }

func VForkMap() {
	par := vrt.Param("par", 2)
	xs := v9inputs()
	bad, good, nbad := v9failing(&xs)
	var img [v9MaxN]int
	for i := 0; i < v9n(); i++ {
		img[i] = v9F(xs[i])
	}
	mult, emult, one := v9mult(&img, &good), v9b2i(&bad), v9ones()
	var calls, seen, eseen [v9MaxN]int
	sent, got, nerr := 0, 0, 0
	ctx := v9ctx()
	in := v9producer(&xs, &sent)
	var f F[int, int]
	if v9mode() == 0 {
		f = Pure(func(x int) int {
			v9note("map", &xs, &calls, x)
			return v9F(x)
		})
	} else {
		f = v9lift(func(x int) (int, error) {
			v9note("map", &xs, &calls, x)
			if v9E(x) {
				return 0, v9err{x}
			}
			return v9F(x), nil
		})
	}
	out, exx := Map(ctx, par, in, f)
	v9consume("consumer", "map.out", out, &img, &good, &mult, &seen, &got)
	v9consumeErr("map.err", exx, &xs, &bad, &emult, &eseen, &nerr)
	vrt.Final("map.closed", func() bool {
		return !v9quiet(ctx) || (vrt.Closed(out) && vrt.Closed(exx) && vrt.LibExited())
	})
	vrt.Final("map.nothing-lost", func() bool {
		return !v9live(ctx) || (got == v9dot(&calls, &good) && nerr == v9dot(&calls, &bad) &&
			vrt.Exited("consumer") && vrt.Exited("errors"))
	})
	vrt.Final("map.complete", func() bool {
		return !v9live(ctx) || (v9mode() == 2 && nbad != 0) ||
			(vrt.Exited("producer") && sent == v9n() && v9same(&calls, &one) && v9same(&seen, &mult) && v9same(&eseen, &emult))
	})
}
