package fork

import (
	"context"

	"verif.local/vrt"
)

// C09 harnesses: the parallel (fork) stages Map, FMap, Filter, Partition,
// ForEach, Void with `par` workers apply the user function exactly once to every
// input element and deliver exactly the multiset of results of the sequential
// stage - for every input, every stage function (uninterpreted), every failing
// set (uninterpreted predicate E) and every interleaving (which worker takes
// which element, in which order results are delivered: all schedule).
//
// Job parameters (concrete, case split): n input length, par worker count,
// cap producer channel capacity, mode 0 Pure / 1 Try / 2 Lift, cancel 1 = a
// canceller goroutine may fire at any step, take -1 = consumers receive until
// their channel is closed, k >= 0 = every consumer receives k values and then
// stops for good (0: nobody ever receives).
//
// Ghost state (booleans, see v9tag): called[i] the user function has been
// applied to element i, seen[i] the result of element i has been received,
// eseen[i] the error of element i has been received.
//
// Final conditions (at every quiescent state of every run):
//   *.closed        cancelled, or consumers that never stop  =>  all outputs
//                   closed and every library goroutine (workers, closer) returned
//   *.nothing-lost  not cancelled, eager consumers  =>  every result computed has
//                   been delivered: seen[i] == called[i] && !failing[i],
//                   eseen[i] == called[i] && failing[i]
//   *.complete      additionally no fail-fast abort  =>  producer done, every
//                   element applied (hence, with the above, received multiset ==
//                   image multiset)
// Assertions at every step: the argument of every application is an input
// element not applied before (*.call.known / *.call.once); every received value
// is the image of an element whose image has not been received before
// (*.out.known / *.out.once; likewise *.err.*); always: no panic, i.e. no send
// on a closed channel, no double close, no negative WaitGroup counter.

// v9failing: the failing set of the job's mode (empty for Pure)
func v9failing(xs *[v9MaxN]int) (bad, good [v9MaxN]bool, nbad int) {
	for i := 0; i < v9n(); i++ {
		bad[i] = v9mode() != 0 && v9E(xs[i])
		good[i] = !bad[i]
		nbad += vrt.B2I(bad[i])
	}
	return
}

// v9lift wraps an either-function according to the job's mode
func v9lift[B any](f func(int) (B, error)) F[int, B] {
	if v9mode() == 1 {
		return Try(f)
	}
	return Lift(f)
}

// v9quiet: the situations in which the stage must have wound up completely
func v9quiet(ctx context.Context) bool { return v9take() < 0 || v9cancelled(ctx) }

// v9live: not cancelled and every consumer keeps receiving
func v9live(ctx context.Context) bool { return v9take() < 0 && !v9cancelled(ctx) }

func VForkMap() {
	par := vrt.Param("par", 2)
	xs := v9inputs()
	bad, good, nbad := v9failing(&xs)
	var img [v9MaxN]int
	for i := 0; i < v9n(); i++ {
		img[i] = v9F(xs[i])
	}
	yes := v9yes()
	var called, seen, eseen [v9MaxN]bool
	ctx := v9ctx()
	in := v9producer(&xs)
	var f F[int, int]
	if v9mode() == 0 {
		f = Pure(func(x int) int {
			v9mark("map.call", &xs, &yes, &called, x)
			return v9F(x)
		})
	} else {
		f = v9lift(func(x int) (int, error) {
			v9mark("map.call", &xs, &yes, &called, x)
			if v9E(x) {
				return 0, v9err{x}
			}
			return v9F(x), nil
		})
	}
	out, exx := Map(ctx, par, in, f)
	v9consume("consumer", "map.out", out, &img, &good, &seen)
	v9consumeErr("map.err", exx, &xs, &bad, &eseen)
	vrt.Final("map.closed", func() bool {
		return !v9quiet(ctx) || (vrt.Closed(out) && vrt.Closed(exx) && vrt.LibExited())
	})
	vrt.Final("map.nothing-lost", func() bool {
		return !v9live(ctx) || (v9iff(&seen, &called, &good) && v9iff(&eseen, &called, &bad) &&
			vrt.Exited("consumer") && vrt.Exited("errors"))
	})
	vrt.Final("map.complete", func() bool {
		return !v9live(ctx) || (v9mode() == 2 && nbad != 0) || (vrt.Exited("producer") && v9all(&called))
	})
}

// ---------------------------------------------------------------------------
// FMap: the arrow decides failure first (E: no output, the error), otherwise
// emits K(a) in {1,2} values; value j of element a is G(a,j) tagged with j and
// the index of a. The arrow honours its context (a blocked send gives way to
// cancellation), as the arrows of the library's own documentation do.

func v9K(a int) int         { return 1 + vrt.UF1("K", a)&1 }
func v9G(a int, j int) int { return v9tag(vrt.UF2("G", a, j)<<1|j, a) }

func VForkFMap() {
	par := vrt.Param("par", 2)
	xs := v9inputs()
	bad, good, nbad := v9failing(&xs)
	var imgA, imgB [v9MaxN]int
	var okA, okB [v9MaxN]bool
	for i := 0; i < v9n(); i++ {
		imgA[i], imgB[i] = v9G(xs[i], 0), v9G(xs[i], 1)
		okA[i], okB[i] = good[i], vrt.And(good[i], v9K(xs[i]) >= 2)
	}
	yes := v9yes()
	var called, seenA, seenB, eseen [v9MaxN]bool
	ctx := v9ctx()
	in := v9producer(&xs)
	arrow := func(ctx context.Context, a int, o chan<- int) error {
		v9mark("fmap.call", &xs, &yes, &called, a)
		if v9mode() != 0 && v9E(a) {
			return v9err{a}
		}
		select {
		case o <- v9G(a, 0):
		case <-ctx.Done():
			return nil
		}
		if v9K(a) >= 2 {
			select {
			case o <- v9G(a, 1):
			case <-ctx.Done():
				return nil
			}
		}
		return nil
	}
	var f FF[int, int]
	if v9mode() == 1 {
		f = TryF(arrow)
	} else {
		f = LiftF(arrow)
	}
	out, exx := FMap(ctx, par, in, f)
	v9consumeWith("consumer", "fmap.out", out, func(v int) {
		a0, a1 := v9hit(0, v, &imgA, &okA), v9hit(1, v, &imgA, &okA)
		a2, a3 := v9hit(2, v, &imgA, &okA), v9hit(3, v, &imgA, &okA)
		b0, b1 := v9hit(0, v, &imgB, &okB), v9hit(1, v, &imgB, &okB)
		b2, b3 := v9hit(2, v, &imgB, &okB), v9hit(3, v, &imgB, &okB)
		vrt.Assert("fmap.out.known", vrt.Any(a0, a1, a2, a3, b0, b1, b2, b3))
		vrt.Assert("fmap.out.once", vrt.Not(vrt.Any(
			vrt.And(a0, seenA[0]), vrt.And(a1, seenA[1]), vrt.And(a2, seenA[2]), vrt.And(a3, seenA[3]),
			vrt.And(b0, seenB[0]), vrt.And(b1, seenB[1]), vrt.And(b2, seenB[2]), vrt.And(b3, seenB[3]))))
		if v9n() > 0 {
			seenA[0], seenB[0] = vrt.Or(seenA[0], a0), vrt.Or(seenB[0], b0)
		}
		if v9n() > 1 {
			seenA[1], seenB[1] = vrt.Or(seenA[1], a1), vrt.Or(seenB[1], b1)
		}
		if v9n() > 2 {
			seenA[2], seenB[2] = vrt.Or(seenA[2], a2), vrt.Or(seenB[2], b2)
		}
		if v9n() > 3 {
			seenA[3], seenB[3] = vrt.Or(seenA[3], a3), vrt.Or(seenB[3], b3)
		}
	})
	v9consumeErr("fmap.err", exx, &xs, &bad, &eseen)
	vrt.Final("fmap.closed", func() bool {
		return !v9quiet(ctx) || (vrt.Closed(out) && vrt.Closed(exx) && vrt.LibExited())
	})
	vrt.Final("fmap.nothing-lost", func() bool {
		return !v9live(ctx) || (v9iff(&seenA, &called, &okA) && v9iff(&seenB, &called, &okB) && v9iff(&eseen, &called, &bad) &&
			vrt.Exited("consumer") && vrt.Exited("errors"))
	})
	vrt.Final("fmap.complete", func() bool {
		return !v9live(ctx) || (v9mode() == 2 && nbad != 0) || (vrt.Exited("producer") && v9all(&called))
	})
}

// ---------------------------------------------------------------------------
// Filter / Partition: the predicate is P; in mode 1 it additionally fails on E
// (returning true together with the error: a failing element must not be taken).

func v9pred(xs *[v9MaxN]int, called *[v9MaxN]bool, label string) F[int, bool] {
	yes := v9yes()
	if v9mode() == 0 {
		return Pure(func(x int) bool {
			v9mark(label, xs, &yes, called, x)
			return v9P(x)
		})
	}
	return Try(func(x int) (bool, error) {
		v9mark(label, xs, &yes, called, x)
		if v9E(x) {
			return true, v9err{x}
		}
		return v9P(x), nil
	})
}

// v9keep: the elements the sequential Filter keeps (left side of Partition)
func v9keep(xs *[v9MaxN]int) (keep, drop [v9MaxN]bool) {
	bad, _, _ := v9failing(xs)
	for i := 0; i < v9n(); i++ {
		keep[i] = vrt.And(v9P(xs[i]), !bad[i])
		drop[i] = !keep[i]
	}
	return
}

func VForkFilter() {
	par := vrt.Param("par", 2)
	xs := v9inputs()
	keep, _ := v9keep(&xs)
	var called, seen [v9MaxN]bool
	ctx := v9ctx()
	in := v9producer(&xs)
	out := Filter(ctx, par, in, v9pred(&xs, &called, "filter.call"))
	v9consume("consumer", "filter.out", out, &xs, &keep, &seen)
	vrt.Final("filter.closed", func() bool {
		return !v9quiet(ctx) || (vrt.Closed(out) && vrt.LibExited())
	})
	vrt.Final("filter.complete", func() bool {
		return !v9live(ctx) || (v9iff(&seen, &called, &keep) && vrt.Exited("consumer") && vrt.Exited("producer") && v9all(&called))
	})
}

func VForkPartition() {
	par := vrt.Param("par", 2)
	xs := v9inputs()
	keep, drop := v9keep(&xs)
	var called, seenL, seenR [v9MaxN]bool
	ctx := v9ctx()
	in := v9producer(&xs)
	lout, rout := Partition(ctx, par, in, v9pred(&xs, &called, "partition.call"))
	v9consume("left", "partition.left", lout, &xs, &keep, &seenL)
	v9consume("right", "partition.right", rout, &xs, &drop, &seenR)
	vrt.Final("partition.closed", func() bool {
		return !v9quiet(ctx) || (vrt.Closed(lout) && vrt.Closed(rout) && vrt.LibExited())
	})
	vrt.Final("partition.complete", func() bool {
		return !v9live(ctx) || (v9iff(&seenL, &called, &keep) && v9iff(&seenR, &called, &drop) &&
			vrt.Exited("left") && vrt.Exited("right") && vrt.Exited("producer") && v9all(&called))
	})
}

// ---------------------------------------------------------------------------
// ForEach (job parameter void=0) / Void (void=1): no values, the signal channel
// is closed once every worker has finished. void=2 / void=3: ForEach with a
// function that fails on the (uninterpreted) set E, lifted with Try / Lift: like
// the sequential pipe.ForEach the stage ignores the outcome of the function, so
// every element is still applied exactly once.

func VForkForEach() {
	par := vrt.Param("par", 2)
	xs := v9inputs()
	yes := v9yes()
	var called [v9MaxN]bool
	ctx := v9ctx()
	in := v9producer(&xs)
	var dn <-chan struct{}
	if vrt.Param("void", 0) == 1 {
		dn = Void(ctx, par, in)
	} else if vrt.Param("void", 0) >= 2 {
		g := func(x int) (int, error) {
			v9mark("foreach.call", &xs, &yes, &called, x)
			if v9E(x) {
				return 0, v9err{x}
			}
			return x, nil
		}
		if vrt.Param("void", 0) == 2 {
			dn = ForEach(ctx, par, in, Try(g))
		} else {
			dn = ForEach(ctx, par, in, Lift(g))
		}
	} else {
		dn = ForEach(ctx, par, in, Pure(func(x int) int {
			v9mark("foreach.call", &xs, &yes, &called, x)
			return x
		}))
	}
	if v9take() != 0 {
		vrt.Go("consumer", func() {
			vrt.Pace("consumer")
			_, more := <-dn
			vrt.Assert("foreach.no-values", !more)
			vrt.Cover("foreach.signalled")
		})
	}
	vrt.Final("foreach.closed", func() bool {
		return !v9quiet(ctx) || (vrt.Closed(dn) && vrt.LibExited())
	})
	vrt.Final("foreach.complete", func() bool {
		return v9cancelled(ctx) || (vrt.Exited("producer") && (vrt.Param("void", 0) == 1 || v9all(&called)) &&
			(v9take() == 0 || vrt.Exited("consumer")) && vrt.Closed(dn) && vrt.LibExited())
	})
}
