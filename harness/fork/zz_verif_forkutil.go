package fork

import (
	"context"

	"verif.local/vrt"
)

// Helpers shared by the C09 / C10 harnesses of package fork.
//
// Convention: code that runs inside goroutines or state predicates reads the
// concrete job parameters through vrt.Param (v9n(), v9take(), ...), never
// through captured variables: captured variables are heap cells and therefore
// symbolic while the goroutine automata are extracted.

const v9MaxN = 4

func v9n() int    { return vrt.Param("n", 2) }
func v9take() int { return vrt.Param("take", -1) }
func v9mode() int { return vrt.Param("mode", 0) }

// v9inputs: n symbolic inputs, pairwise distinct by construction (the two low
// bits carry the index, the upper 62 bits are arbitrary), so that a value
// identifies its position; natively (all-zero inputs) they are 0,1,2,3.
func v9inputs() [v9MaxN]int {
	var xs [v9MaxN]int
	for i := 0; i < v9n(); i++ {
		xs[i] = vrt.Int("x")<<2 | i
	}
	return xs
}

// v9producer feeds the input channel (capacity = job parameter "cap"): sends the
// n elements, then closes.
func v9producer(xs *[v9MaxN]int) <-chan int {
	in := make(chan int, vrt.Param("cap", 0))
	vrt.Go("producer", func() {
		for i := 0; i < v9n(); i++ {
			vrt.Pace("producer")
			in <- xs[i]
		}
		vrt.Pace("producer")
		close(in)
	})
	return in
}

// v9ctx: a cancellable context; the canceller goroutine exists only in the
// jobs with parameter cancel=1 (it may fire at any step of the schedule).
func v9ctx() context.Context {
	ctx, cancel := context.WithCancel(context.Background())
	if vrt.Param("cancel", 0) == 1 {
		vrt.Go("cancel", func() {
			vrt.Pace("cancel")
			cancel()
		})
	}
	return ctx
}

func v9cancelled(ctx context.Context) bool { return vrt.Closed(ctx.Done()) }

// v9err is the error of a failing stage function: carries the element.
type v9err struct{ x int }

func (e v9err) Error() string { return "v9err" }

// v9tag: the stage functions of the harnesses keep the index tag of their
// argument in the two low bits of the result (the upper 62 bits are an
// uninterpreted function of the argument), so that results of different
// elements are different values and every ghost counter is a boolean.
func v9tag(y, x int) int { return y<<2 | x&3 }

func v9F(x int) int  { return v9tag(vrt.UF1("F", x), x) }
func v9P(x int) bool { return vrt.Pred1("P", x) }
func v9E(x int) bool { return vrt.Pred1("E", x) }

// v9hit: slot i exists, is valid, and v is its value
func v9hit(i int, v int, img *[v9MaxN]int, ok *[v9MaxN]bool) bool {
	return i < v9n() && vrt.And(ok[i], v == img[i])
}

// v9mark: ghost bookkeeping of one event carrying value v (an application of
// the user function to v, or the receipt of v by a consumer): v must be the
// value of a valid slot (nothing invented) that has not been marked before
// (nothing duplicated); the slot is marked. Runs inside goroutines: unrolled by
// hand, a loop would cost one silent transition per iteration.
func v9mark(label string, img *[v9MaxN]int, ok *[v9MaxN]bool, mark *[v9MaxN]bool, v int) {
	h0, h1, h2, h3 := v9hit(0, v, img, ok), v9hit(1, v, img, ok), v9hit(2, v, img, ok), v9hit(3, v, img, ok)
	vrt.Assert(label+".known", vrt.Any(h0, h1, h2, h3))
	vrt.Assert(label+".once", vrt.Not(vrt.Any(vrt.And(h0, mark[0]), vrt.And(h1, mark[1]), vrt.And(h2, mark[2]), vrt.And(h3, mark[3]))))
	if v9n() > 0 {
		mark[0] = vrt.Or(mark[0], h0)
	}
	if v9n() > 1 {
		mark[1] = vrt.Or(mark[1], h1)
	}
	if v9n() > 2 {
		mark[2] = vrt.Or(mark[2], h2)
	}
	if v9n() > 3 {
		mark[3] = vrt.Or(mark[3], h3)
	}
}

// v9all: every one of the first n slots is true
func v9all(a *[v9MaxN]bool) bool {
	ok := true
	for i := 0; i < v9n(); i++ {
		ok = vrt.And(ok, a[i])
	}
	return ok
}

// v9iff: for every slot, a[i] == (b[i] && c[i])
func v9iff(a, b, c *[v9MaxN]bool) bool {
	ok := true
	for i := 0; i < v9n(); i++ {
		ok = vrt.And(ok, a[i] == vrt.And(b[i], c[i]))
	}
	return ok
}

func v9yes() (o [v9MaxN]bool) {
	for i := 0; i < v9n(); i++ {
		o[i] = true
	}
	return
}

// v9consume registers a consumer of an int channel: eager (take<0: until the
// channel is closed), absent (take==0), or stopping for good after take values.
func v9consume(name, label string, out <-chan int, img *[v9MaxN]int, ok *[v9MaxN]bool, seen *[v9MaxN]bool) {
	v9consumeWith(name, label, out, func(v int) { v9mark(label, img, ok, seen, v) })
}

func v9consumeWith(name, label string, out <-chan int, mark func(int)) {
	if v9take() == 0 {
		return
	}
	if v9take() < 0 {
		vrt.Go(name, func() {
			for {
				vrt.Pace(name)
				v, more := <-out
				if !more {
					vrt.Cover(label + ".drained")
					return
				}
				mark(v)
			}
		})
		return
	}
	vrt.Go(name, func() {
		for k := 0; k < v9take(); k++ {
			vrt.Pace(name)
			v, more := <-out
			if !more {
				return
			}
			mark(v)
		}
	})
}

// v9consumeErr registers the consumer of the error channel: every error must be
// v9err{x} of a failing input element x, at most once each.
func v9consumeErr(label string, exx <-chan error, xs *[v9MaxN]int, bad *[v9MaxN]bool, eseen *[v9MaxN]bool) {
	if v9take() == 0 {
		return
	}
	if v9take() < 0 {
		vrt.Go("errors", func() {
			for {
				vrt.Pace("errors")
				e, more := <-exx
				if !more {
					vrt.Cover(label + ".drained")
					return
				}
				v9mark(label, xs, bad, eseen, e.(v9err).x)
			}
		})
		return
	}
	vrt.Go("errors", func() {
		for k := 0; k < v9take(); k++ {
			vrt.Pace("errors")
			e, more := <-exx
			if !more {
				return
			}
			v9mark(label, xs, bad, eseen, e.(v9err).x)
		}
	})
}
