package fork

import (
	"context"

	"verif.local/vrt"
)

// Helpers shared by the C09 / C10 harnesses of package fork.
//
// Convention: code that runs inside goroutines or state predicates reads the
// concrete job parameters through vrt.Param (v9n(), v9take(), ...), never
// through captured variables: captured variables are heap cells and therefore
// symbolic while the goroutine automata are extracted.

const v9MaxN = 4

func v9n() int    { return vrt.Param("n", 2) }
func v9take() int { return vrt.Param("take", -1) }
func v9mode() int { return vrt.Param("mode", 0) }

// v9inputs: n symbolic inputs, pairwise distinct by construction (the two low
// bits carry the index, the upper 62 bits are arbitrary), so that a value
// identifies its position; natively (all-zero inputs) they are 0,1,2,3.
func v9inputs() [v9MaxN]int {
	var xs [v9MaxN]int
	for i := 0; i < v9n(); i++ {
		xs[i] = vrt.Int("x")<<2 | i
	}
	return xs
}

// v9producer feeds the input channel (capacity = job parameter "cap"): sends the
// n elements, then closes.
func v9producer(xs *[v9MaxN]int, sent *int) <-chan int {
	in := make(chan int, vrt.Param("cap", 0))
	vrt.Go("producer", func() {
		for i := 0; i < v9n(); i++ {
			in <- xs[i]
			*sent++
		}
		close(in)
	})
	return in
}

// v9ctx: a cancellable context; the canceller goroutine exists only in the
// jobs with parameter cancel=1 (it may fire at any step of the schedule).
func v9ctx() context.Context {
	ctx, cancel := context.WithCancel(context.Background())
	if vrt.Param("cancel", 0) == 1 {
		vrt.Go("cancel", func() { cancel() })
	}
	return ctx
}

func v9cancelled(ctx context.Context) bool { return vrt.Closed(ctx.Done()) }

// v9err is the error of a failing stage function: carries the element.
type v9err struct{ x int }

func (e v9err) Error() string { return "v9err" }

func v9F(x int) int  { return vrt.UF1("F", x) }
func v9P(x int) bool { return vrt.Pred1("P", x) }
func v9E(x int) bool { return vrt.Pred1("E", x) }

// v9note: ghost bookkeeping of one application of the user function to x:
// x must be an input element (not invented), is counted at its index, and no
// element may be counted twice.
func v9note(label string, xs *[v9MaxN]int, calls *[v9MaxN]int, x int) {
	known, once := false, true
	for i := 0; i < v9n(); i++ {
		hit := x == xs[i]
		known = vrt.Or(known, hit)
		calls[i] += vrt.B2I(hit)
		once = vrt.And(once, calls[i] <= 1)
	}
	vrt.Assert(label+".arg-is-input", known)
	vrt.Assert(label+".at-most-once", once)
}

// v9same: every counter of the first n equals the matching expected count
func v9same(cnt, want *[v9MaxN]int) bool {
	ok := true
	for i := 0; i < v9n(); i++ {
		ok = vrt.And(ok, cnt[i] == want[i])
	}
	return ok
}

func v9ones() (o [v9MaxN]int) {
	for i := 0; i < v9n(); i++ {
		o[i] = 1
	}
	return
}

// v9tally: a consumer has received v: count it against every image slot it
// equals (slot i is valid iff ok[i]); the value must equal some valid slot
// (nothing invented) and no slot may be seen more often than its multiplicity
// in the expected multiset (nothing duplicated).
func v9tally(label string, img *[v9MaxN]int, ok *[v9MaxN]bool, mult, seen *[v9MaxN]int, v int) {
	known, nodup := false, true
	for i := 0; i < v9n(); i++ {
		hit := vrt.And(ok[i], v == img[i])
		known = vrt.Or(known, hit)
		seen[i] += vrt.B2I(hit)
		nodup = vrt.And(nodup, seen[i] <= mult[i])
	}
	vrt.Assert(label+".value-is-image", known)
	vrt.Assert(label+".no-duplicate", nodup)
}

// v9mult: multiplicity of slot i in the expected multiset: number of valid
// slots j whose value equals that of slot i (0 for an invalid slot)
func v9mult(img *[v9MaxN]int, ok *[v9MaxN]bool) (m [v9MaxN]int) {
	for i := 0; i < v9n(); i++ {
		for j := 0; j < v9n(); j++ {
			m[i] += vrt.B2I(vrt.All(ok[i], ok[j], img[i] == img[j]))
		}
	}
	return
}

func v9b2i(b *[v9MaxN]bool) (o [v9MaxN]int) {
	for i := 0; i < v9n(); i++ {
		o[i] = vrt.B2I(b[i])
	}
	return
}

// v9dot: sum over i of cnt[i] where sel[i]
func v9dot(cnt *[v9MaxN]int, sel *[v9MaxN]bool) (s int) {
	for i := 0; i < v9n(); i++ {
		s += cnt[i] * vrt.B2I(sel[i])
	}
	return
}

// v9consume registers a consumer of an int channel: eager (take<0: until the
// channel is closed), absent (take==0), or stopping for good after take values.
func v9consume(name, label string, out <-chan int, img *[v9MaxN]int, ok *[v9MaxN]bool, mult, seen *[v9MaxN]int, got *int) {
	if v9take() == 0 {
		return
	}
	if v9take() < 0 {
		vrt.Go(name, func() {
			for v := range out {
				v9tally(label, img, ok, mult, seen, v)
				*got++
			}
			vrt.Cover(label + ".drained")
		})
		return
	}
	vrt.Go(name, func() {
		for k := 0; k < v9take(); k++ {
			v, more := <-out
			if !more {
				break
			}
			v9tally(label, img, ok, mult, seen, v)
			*got++
		}
	})
}

// v9consumeErr registers the consumer of the error channel: every error must be
// v9err{x} of a failing input element x, at most once each.
func v9consumeErr(label string, exx <-chan error, xs *[v9MaxN]int, bad *[v9MaxN]bool, emult, eseen *[v9MaxN]int, nerr *int) {
	if v9take() == 0 {
		return
	}
	if v9take() < 0 {
		vrt.Go("errors", func() {
			for e := range exx {
				v9tally(label, xs, bad, emult, eseen, e.(v9err).x)
				*nerr++
			}
			vrt.Cover(label + ".drained")
		})
		return
	}
	vrt.Go("errors", func() {
		for k := 0; k < v9take(); k++ {
			e, more := <-exx
			if !more {
				break
			}
			v9tally(label, xs, bad, emult, eseen, e.(v9err).x)
			*nerr++
		}
	})
}
