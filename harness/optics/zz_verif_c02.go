package optics

// C02 harness: derivation either panics or yields an optic on a field of
// exactly the requested type; Reflectors reject foreign arguments and leave
// them untouched.

import (
	"github.com/fogfish/golem/hseq"
	"verif.local/vrt"
)

type VPtrIn struct {
	U int32
	V string
}
type VPtr struct {
	A int32
	*VPtrIn
	Z string
}

type VName string

// the embedded pointer is the FIRST field (offset 0 of the container)
type VPtrFirst struct {
	*VPtrIn
	N int64
	S string
}

// a second level of pointer embedding with same-named, same-typed fields
type VPtrDeepIn struct {
	Z string
	W int64
}
type VPtrDeep struct {
	Head int64
	*VPtrDeepIn
	Tail int64
}

func VReject() {
	// unknown name / type no field has
	vrt.Assert("unknown-name.lens", vrt.Panics(func() { ForProduct1[VFlat, int64]("Nope") }))
	vrt.Assert("unknown-name.reflector", vrt.Panics(func() { ForSpectrum1[VFlat, int64]("Nope") }))
	vrt.Assert("absent-type.lens", vrt.Panics(func() { ForProduct1[VFlat, uint32]() }))
	vrt.Assert("absent-type.reflector", vrt.Panics(func() { ForSpectrum1[VFlat, uint32]() }))
	vrt.Assert("absent-type.lens2", vrt.Panics(func() { ForProduct2[VFlat, bool, uint32]() }))
	// a name whose field has another type
	vrt.Assert("wrong-type.lens", vrt.Panics(func() { ForProduct1[VFlat, int32]("B") }))
	vrt.Assert("wrong-type.reflector", vrt.Panics(func() { ForSpectrum1[VFlat, int32]("B") }))
	vrt.Assert("wrong-type.width", vrt.Panics(func() { ForProduct1[VFlat, int64]("E") }))
	vrt.Assert("wrong-type.ptr-vs-value", vrt.Panics(func() { ForProduct1[VFlat, int]("H") }))
	vrt.Assert("wrong-type.value-vs-ptr", vrt.Panics(func() { ForProduct1[VFlat, *int64]("B") }))
	vrt.Assert("wrong-type.iface", vrt.Panics(func() { ForProduct1[VFlat, any]("H") }))
	vrt.Assert("wrong-type.iface2", vrt.Panics(func() { ForProduct1[VFlat, *int]("I") }))
	vrt.Assert("wrong-type.slice", vrt.Panics(func() { ForProduct1[VFlat, []int64]("G") }))
	vrt.Assert("wrong-type.array", vrt.Panics(func() { ForProduct1[VFlat, [3]int32]("J") }))
	vrt.Assert("wrong-type.named-vs-underlying", vrt.Panics(func() { ForProduct1[VNine, int]("F9") }))
	vrt.Assert("wrong-type.underlying-vs-named", vrt.Panics(func() { ForProduct1[VNine, VMyInt]("F4") }))
	vrt.Assert("wrong-type.second-of-two", vrt.Panics(func() { ForProduct2[VNine, int8, int32]("F1", "F2") }))
	vrt.Assert("wrong-type.second-of-two.refl", vrt.Panics(func() { ForSpectrum2[VNine, int8, int32]("F1", "F2") }))
	vrt.Assert("wrong-type.embedded", vrt.Panics(func() { ForProduct1[VDeep, VIn2]("VIn3") }))
	vrt.Assert("wrong-type.shape", vrt.Panics(func() { ForShape2[VNine, int8, int32]("F1", "F2") }))
	vrt.Assert("wrong-type.bimaps", vrt.Panics(func() { BiMapS[VFlat, VName, string]("F") }))
	vrt.Assert("wrong-type.bimapi", vrt.Panics(func() { BiMapI[VNine, int, VMyInt]("F9") }))
	vrt.Assert("ok.bimapi", !vrt.Panics(func() { BiMapI[VNine, VMyInt, int]("F9") }))
	// direct construction from a mismatching hseq.Type
	tb := hseq.ForName(hseq.New[VFlat](), "B")
	vrt.Assert("newlens.mismatch", vrt.Panics(func() { NewLens[VFlat, int32](tb) }))
	vrt.Assert("newreflector.mismatch", vrt.Panics(func() { NewReflector[VFlat, int32](tb) }))
	vrt.Assert("newlens.match", !vrt.Panics(func() { NewLens[VFlat, int64](tb) }))
	// too few names
	vrt.Assert("too-few-names.2", vrt.Panics(func() { ForProduct2[VNine, int8, int16]("F1") }))
	vrt.Assert("too-few-names.3", vrt.Panics(func() { ForProduct3[VNine, int8, int16, int32]("F1", "F2") }))
	vrt.Assert("too-few-names.refl", vrt.Panics(func() { ForSpectrum2[VNine, int8, int16]("F1") }))
	spare := make([]string, 1, 4) // spare capacity: attr[0:2] does not fail by itself
	spare[0] = "F1"
	vrt.Assert("too-few-names.spare-capacity", vrt.Panics(func() { ForProduct2[VNine, int8, int16](spare...) }))
	vrt.Assert("too-few-names.spare-capacity.refl", vrt.Panics(func() { ForSpectrum2[VNine, int8, int16](spare...) }))
	vrt.Cover("reject.done")
}

// a container type parameter that is not a struct
func VRejectContainer() {
	vrt.Assert("pointer-container.lens.name", vrt.Panics(func() { ForProduct1[*VFlat, int64]("B") }))
	vrt.Assert("pointer-container.lens.type", vrt.Panics(func() { ForProduct1[*VFlat, int64]() }))
	vrt.Assert("pointer-container.reflector", vrt.Panics(func() { ForSpectrum1[*VFlat, int64]("B") }))
	vrt.Assert("pointer-container.lens2", vrt.Panics(func() { ForProduct2[*VNine, int8, int16]() }))
	vrt.Assert("pointer-container.shape", vrt.Panics(func() { ForShape2[*VNine, int8, int16]() }))
	vrt.Assert("pointer-container.bimap", vrt.Panics(func() { BiMapI[*VNine, VMyInt, int]("F9") }))
	vrt.Cover("reject-container.done")
}

// fields that lie behind an embedded pointer cannot be reached by offset
// arithmetic on the outer struct: the derivation has to refuse them
func VRejectPtrEmbedded() {
	vrt.Assert("ptr-embedded.lens.name", vrt.Panics(func() { ForProduct1[VPtr, string]("V") }))
	vrt.Assert("ptr-embedded.lens.type", vrt.Panics(func() { ForProduct1[VPtr, VPtrIn]() }))
	vrt.Assert("ptr-embedded.lens.name.U", vrt.Panics(func() { ForProduct1[VPtr, int32]("U") }))
	vrt.Assert("ptr-embedded.reflector", vrt.Panics(func() { ForSpectrum1[VPtr, string]("V") }))
	vrt.Assert("ptr-embedded.deep", vrt.Panics(func() { ForProduct1[VPtrDeep, int64]("W") }))
	vrt.Assert("ptr-embedded.first.lens.U", vrt.Panics(func() { ForProduct1[VPtrFirst, int32]("U") }))
	vrt.Assert("ptr-embedded.first.lens.V", vrt.Panics(func() { ForProduct1[VPtrFirst, string]("V") }))
	vrt.Assert("ptr-embedded.first.lens.type", vrt.Panics(func() { ForProduct1[VPtrFirst, int32]() }))
	vrt.Assert("ptr-embedded.first.reflector", vrt.Panics(func() { ForSpectrum1[VPtrFirst, int32]("U") }))
	vrt.Cover("reject-ptr.done")
}

// the pointer field itself, and plain fields next to it, are fine and exact
func VPtrEmbeddedNeighbours() {
	vlaws[VPtr, int32]("VPtr.A", ForProduct1[VPtr, int32]("A"), func(p *VPtr) int32 { return p.A }, func(p *VPtr, a int32) { p.A = a })
	vlaws[VPtr, *VPtrIn]("VPtr.VPtrIn", ForProduct1[VPtr, *VPtrIn]("VPtrIn"), func(p *VPtr) *VPtrIn { return p.VPtrIn }, func(p *VPtr, a *VPtrIn) { p.VPtrIn = a })
	vlaws[VPtr, string]("VPtr.Z", ForProduct1[VPtr, string]("Z"), func(p *VPtr) string { return p.Z }, func(p *VPtr, a string) { p.Z = a })
	// by type, string resolves to the first string in the listing, which is behind the pointer: must be refused
	vrt.Assert("ptr-embedded.first-by-type", vrt.Panics(func() { ForProduct1[VPtr, string]() }))
	vrt.Cover("ptr-neighbours.done")
}

// Reflector given anything but *S panics and modifies nothing
func VReflectorArgs() {
	r := ForSpectrum1[VFlat, int64]("B")
	a := vrt.Int("a")
	v0 := vrt.Fresh[VFlat]("v")
	v := v0
	vrt.Assert("putt.value", vrt.Panics(func() { r.Putt(v, int64(a)) }))
	vrt.Assert("gett.value", vrt.Panics(func() { r.Gett(v) }))
	vrt.Assert("putt.nil", vrt.Panics(func() { r.Putt(nil, int64(a)) }))
	vrt.Assert("gett.nil", vrt.Panics(func() { r.Gett(nil) }))
	var np *VFlat
	_ = np
	pp := &v
	ppp := &pp
	vrt.Assert("putt.ptrptr", vrt.Panics(func() { r.Putt(ppp, int64(a)) }))
	vrt.Assert("putt.ptrptr.untouched", vrt.Same(v, v0) && pp == &v)
	o0 := vrt.Fresh[VNine]("o")
	o := o0
	vrt.Assert("putt.other-struct", vrt.Panics(func() { r.Putt(&o, int64(a)) }))
	vrt.Assert("gett.other-struct", vrt.Panics(func() { r.Gett(&o) }))
	vrt.Assert("putt.other-struct.untouched", vrt.Same(o, o0))
	n := a
	vrt.Assert("putt.int-pointer", vrt.Panics(func() { r.Putt(&n, int64(a)) }))
	vrt.Assert("putt.int-pointer.untouched", n == a)
	// same layout, different type
	type vflatTwin VFlat
	t0 := vrt.Fresh[vflatTwin]("t")
	t := t0
	vrt.Assert("putt.twin-type", vrt.Panics(func() { r.Putt(&t, int64(a)) }))
	vrt.Assert("putt.twin-type.untouched", vrt.Same(t, t0))
	// and the right type works
	vrt.Assert("putt.ok", !vrt.Panics(func() { r.Putt(&v, int64(a)) }))
	vrt.Assert("putt.ok.value", v.B == int64(a))
	vrt.Cover("reflector-args.done")
}
