package optics

// C04 harness: Join, Getter, Setter, BiMap, BiMapS/B/I/F, NewLensM, Iso,
// Morphism on structures with symbolic content; every non-focus leaf of both
// structures must stay the same.

import "verif.local/vrt"

type VLeaf struct {
	Pre  int16
	V    int64
	Post string
}
type VMid struct {
	Tag  int8
	Leaf VLeaf
	N    uint32
}
type VRoot struct {
	ID  int64
	Mid VMid
	End bool
}

type VTitle string
type VBytes []byte
type VCount int32
type VRatio float64

// the named foci S, B, I, F are each the SECOND field of their type: a BiMapX
// that resolves its focus by type instead of by the given name hits S0..F0
type VNamed struct {
	Guard0 int64
	S0     string
	B0     []byte
	I0     int32
	F0     float64
	S      string
	B      []byte
	I      int32
	F      float64
	Guard1 int64
}

func VJoin() {
	mid := ForProduct1[VRoot, VMid]("Mid")
	leaf := ForProduct1[VMid, VLeaf]("Leaf")
	v := ForProduct1[VLeaf, int64]("V")
	tag := ForProduct1[VMid, int8]("Tag")
	// depth 1
	vlaws[VRoot, int8]("join1.tag", Join(mid, tag), func(p *VRoot) int8 { return p.Mid.Tag }, func(p *VRoot, a int8) { p.Mid.Tag = a })
	vlaws[VRoot, VLeaf]("join1.leaf", Join(mid, leaf), func(p *VRoot) VLeaf { return p.Mid.Leaf }, func(p *VRoot, a VLeaf) { p.Mid.Leaf = a })
	// depth 2, both associations
	vlaws[VRoot, int64]("join2.left", Join(Join(mid, leaf), v), func(p *VRoot) int64 { return p.Mid.Leaf.V }, func(p *VRoot, a int64) { p.Mid.Leaf.V = a })
	vlaws[VRoot, int64]("join2.right", Join(mid, Join(leaf, v)), func(p *VRoot) int64 { return p.Mid.Leaf.V }, func(p *VRoot, a int64) { p.Mid.Leaf.V = a })
	// depth 3 through a wrapper struct
	type vwrap struct {
		Before uint8
		Root   VRoot
		After  int32
	}
	root := ForProduct1[vwrap, VRoot]("Root")
	vlaws[vwrap, int64]("join3", Join(Join(Join(root, mid), leaf), v), func(p *vwrap) int64 { return p.Root.Mid.Leaf.V }, func(p *vwrap, a int64) { p.Root.Mid.Leaf.V = a })
	vlaws[vwrap, string]("join3.post", Join(root, Join(mid, Join(leaf, ForProduct1[VLeaf, string]("Post")))), func(p *vwrap) string { return p.Root.Mid.Leaf.Post }, func(p *vwrap, a string) { p.Root.Mid.Leaf.Post = a })
	vrt.Cover("join.done")
}

func VGetterSetterBiMap() {
	base := ForProduct1[VRoot, int64]("ID")
	f := func(x int64) int { return vrt.UF1("f", int(x)) }
	h := func(y int) int64 { return int64(vrt.UF1("h", y)) }

	// Getter: reads f(field), never writes
	g0 := vrt.Fresh[vguard[VRoot]]("g")
	g := g0
	get := Getter(base, f)
	vrt.Assert("getter.get", get.Get(&g.s) == vrt.Named("fv", vrt.UF1("f", int(g0.s.ID))))
	r := get.Put(&g.s, vrt.Int("b"))
	vrt.Assert("getter.put.returns-same-pointer", r == &g.s)
	vrt.Assert("getter.put.never-writes", vrt.Same(g, g0))

	// Setter: writes exactly h(b)
	set := Setter(base, h)
	b := vrt.Int("b")
	set.Put(&g.s, b)
	want := g0
	want.s.ID = int64(vrt.UF1("h", b))
	vrt.Assert("setter.put.exact", vrt.Same(g, want))

	// BiMap with mutually inverse conversions obeys the three laws on the converted value
	bi := BiMap(base, f, h)
	g = g0
	c, d := vrt.Int("c"), vrt.Int("d")
	// mutually inverse on the values that occur
	vrt.Assume(vrt.UF1("f", vrt.UF1("h", c)) == c)
	vrt.Assume(vrt.UF1("f", vrt.UF1("h", d)) == d)
	vrt.Assume(vrt.UF1("h", vrt.UF1("f", int(g0.s.ID))) == int(g0.s.ID))
	bi.Put(&g.s, c)
	vrt.Assert("bimap.putget", bi.Get(&g.s) == c)
	want = g0
	want.s.ID = int64(vrt.UF1("h", c))
	vrt.Assert("bimap.put.exact", vrt.Same(g, want))
	bi.Put(&g.s, d)
	want.s.ID = int64(vrt.UF1("h", d))
	vrt.Assert("bimap.putput", vrt.Same(g, want))
	g = g0
	bi.Put(&g.s, bi.Get(&g.s))
	vrt.Assert("bimap.getput", vrt.Same(g, g0))
	vrt.Cover("getter-setter-bimap.done")
}

func VBiMapX() {
	g0 := vrt.Fresh[vguard[VNamed]]("g")

	g := g0
	ls := BiMapS[VNamed, string, VTitle]("S")
	vrt.Assert("bimaps.get", vrt.Same(string(ls.Get(&g.s)), g0.s.S))
	t := VTitle(vrt.Str("t", 2))
	ls.Put(&g.s, t)
	want := g0
	want.s.S = string(t)
	vrt.Assert("bimaps.put.exact", vrt.Same(g, want))
	vrt.Assert("bimaps.putget", vrt.Same(ls.Get(&g.s), t))

	g = g0
	li := BiMapI[VNamed, int32, VCount]("I")
	vrt.Assert("bimapi.get", int32(li.Get(&g.s)) == g0.s.I)
	c := vrt.Fresh[VCount]("c")
	li.Put(&g.s, c)
	want = g0
	want.s.I = int32(c)
	vrt.Assert("bimapi.put.exact", vrt.Same(g, want))
	vrt.Assert("bimapi.putget", li.Get(&g.s) == c)
	li.Put(&g.s, li.Get(&g.s))
	vrt.Assert("bimapi.getput", vrt.Same(g, want))

	g = g0
	lf := BiMapF[VNamed, float64, VRatio]("F")
	x := vrt.Fresh[VRatio]("x")
	lf.Put(&g.s, x)
	want = g0
	want.s.F = float64(x)
	vrt.Assert("bimapf.put.exact", vrt.Same(g, want))
	vrt.Assert("bimapf.putget", vrt.Same(lf.Get(&g.s), x))

	g = g0
	lb := BiMapB[VNamed, []byte, VBytes]("B")
	y := vrt.Fresh[VBytes]("y")
	lb.Put(&g.s, y)
	want = g0
	want.s.B = []byte(y)
	vrt.Assert("bimapb.put.exact", vrt.Same(g, want))
	vrt.Assert("bimapb.putget", vrt.Same(lb.Get(&g.s), y))
	vrt.Cover("bimapx.done")
}

func VLensM() {
	m := map[string]int{"a": vrt.Int("va"), "b": vrt.Int("vb"), "c": vrt.Int("vc")}
	va, vb, vc := m["a"], m["b"], m["c"]
	key := []string{"a", "b", "c", "zz"}[vrt.Choice("key", 4)]
	l := NewLensM[map[string]int, string, int](key)
	old := m[key]
	vrt.Assert("lensm.get", l.Get(&m) == old)
	x := vrt.Int("x")
	r := l.Put(&m, x)
	vrt.Assert("lensm.put.returns-same-pointer", r == &m)
	vrt.Assert("lensm.putget", l.Get(&m) == x)
	for _, k := range []string{"a", "b", "c"} {
		if k != key {
			o := map[string]int{"a": va, "b": vb, "c": vc}[k]
			vrt.Assert("lensm.other-keys", m[k] == o)
		}
	}
	n := 3
	if key == "zz" {
		n = 4
	}
	vrt.Assert("lensm.len", len(m) == n)
	vrt.Cover("lensm.done")
}

type VSrc struct {
	G0 int32
	A  int64
	B  string
	C  bool
	G1 int16
}
type VDst struct {
	X  string
	G0 uint8
	Y  int64
	Z  bool
	G1 int64
}

func VIso() {
	isoA := Iso(ForProduct1[VSrc, int64]("A"), ForProduct1[VDst, int64]("Y"))
	isoB := Iso(ForProduct1[VSrc, string]("B"), ForProduct1[VDst, string]("X"))
	isoC := Iso(ForProduct1[VSrc, bool]("C"), ForProduct1[VDst, bool]("Z"))
	pool := []Isomorphism[VSrc, VDst]{nil, isoA, isoB, isoC}
	n := vrt.Choice("n", vrt.Param("maxlen", 3)+1)
	var list []Isomorphism[VSrc, VDst]
	var used [4]bool
	for i := 0; i < n; i++ {
		k := vrt.Choice("iso", 4)
		list = append(list, pool[k])
		used[k] = true
	}
	m := Morphism(list...)
	s0 := vrt.Fresh[vguard[VSrc]]("s")
	t0 := vrt.Fresh[vguard[VDst]]("t")
	s, t := s0, t0
	m.Forward(&s.s, &t.s)
	vrt.Assert("forward.source-untouched", vrt.Same(s, s0))
	wantT := t0
	if used[1] {
		wantT.s.Y = s0.s.A
	}
	if used[2] {
		wantT.s.X = s0.s.B
	}
	if used[3] {
		wantT.s.Z = s0.s.C
	}
	vrt.Assert("forward.exact", vrt.Same(t, wantT))
	// inverse into a fresh source restores exactly the foci
	z0 := vrt.Fresh[vguard[VSrc]]("z")
	z := z0
	m.Inverse(&t.s, &z.s)
	vrt.Assert("inverse.target-untouched", vrt.Same(t, wantT))
	wantZ := z0
	if used[1] {
		wantZ.s.A = s0.s.A
	}
	if used[2] {
		wantZ.s.B = s0.s.B
	}
	if used[3] {
		wantZ.s.C = s0.s.C
	}
	vrt.Assert("inverse.exact", vrt.Same(z, wantZ))
	// forward;inverse on the same source is the identity on it
	m.Inverse(&t.s, &s.s)
	vrt.Assert("forward-inverse.identity", vrt.Same(s, s0))
	vrt.Cover("iso.done")
}
