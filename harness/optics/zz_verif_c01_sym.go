package optics

// C01, layout-symbolic mode: see harness/hseq/zz_verif_c03_sym.go. The lens
// and reflector laws are checked on a struct whose leaf types have symbolic
// size and alignment; the unsafe address computed by the lens must be proved
// equal to the focus field's offset under EVERY layout, otherwise the memory
// model reports a violation with a layout as the counterexample.

type VSymL1 int8
type VSymL2 int64
type VSymL3 int16
type VSymL4 int32

type VSymC struct {
	X VSymL1
	Y VSymL2
}
type VSymB struct {
	P VSymL3
	VSymC
	Q VSymL4
}
type VSymA struct {
	Head VSymL1
	VSymB
	Tail VSymL3
}

func VSymLens() {
	vlaws[VSymA, VSymL1]("sym.Head", ForProduct1[VSymA, VSymL1]("Head"), func(p *VSymA) VSymL1 { return p.Head }, func(p *VSymA, a VSymL1) { p.Head = a })
	vlaws[VSymA, VSymL3]("sym.P", ForProduct1[VSymA, VSymL3]("P"), func(p *VSymA) VSymL3 { return p.P }, func(p *VSymA, a VSymL3) { p.P = a })
	vlaws[VSymA, VSymL1]("sym.X", ForProduct1[VSymA, VSymL1]("X"), func(p *VSymA) VSymL1 { return p.X }, func(p *VSymA, a VSymL1) { p.X = a })
	vlaws[VSymA, VSymL2]("sym.Y", ForProduct1[VSymA, VSymL2]("Y"), func(p *VSymA) VSymL2 { return p.Y }, func(p *VSymA, a VSymL2) { p.Y = a })
	vlaws[VSymA, VSymL2]("sym.Y/type", ForProduct1[VSymA, VSymL2](), func(p *VSymA) VSymL2 { return p.Y }, func(p *VSymA, a VSymL2) { p.Y = a })
	vlaws[VSymA, VSymL4]("sym.Q", ForProduct1[VSymA, VSymL4]("Q"), func(p *VSymA) VSymL4 { return p.Q }, func(p *VSymA, a VSymL4) { p.Q = a })
	vlaws[VSymA, VSymL3]("sym.Tail", ForProduct1[VSymA, VSymL3]("Tail"), func(p *VSymA) VSymL3 { return p.Tail }, func(p *VSymA, a VSymL3) { p.Tail = a })
	vlaws[VSymA, VSymC]("sym.VSymC", ForProduct1[VSymA, VSymC]("VSymC"), func(p *VSymA) VSymC { return p.VSymC }, func(p *VSymA, a VSymC) { p.VSymC = a })
	vrlaws[VSymA, VSymL2]("sym.Y/refl", ForSpectrum1[VSymA, VSymL2]("Y"), func(p *VSymA) VSymL2 { return p.Y }, func(p *VSymA, a VSymL2) { p.Y = a })
}
