package main

// C12: Join is an interleaving of its inputs.

func init() {
	c12Assumptions := append([]string{
		"the Go channel runtime, select, close, context cancellation, sync.WaitGroup and the scheduler are MODELLED from their documented semantics (buffered FIFO, rendez-vous as a joint step, any ready select arm may fire, default only if no arm is buffer-ready, send/close on closed panics; WaitGroup.Wait is enabled iff the counter is zero); the claim is 'golem is right if these behave as documented'",
		"every interleaving of the bounded configuration is a value of the symbolic schedule; claims hold for runs of the stated configurations only (number of inputs, elements per input, capacities)",
		"a lexicographic partial-order constraint prunes equivalent interleavings (sound: every Mazurkiewicz trace keeps its minimal linearisation; runs may stop early at any step, so every reachable state is represented)",
		"Join is instantiated at int8 (it is parametric in the element type): element values carry the index of their input in the two low bits (by construction), the remaining 6 bits are free, which is what lets the consumer project the merged stream and tell the (at most 2) elements of one input apart; the context is never cancelled",
		"heap cells shared by several library goroutines and written after set-up are read/written in separate steps (the interpreter makes such loads and stores visible operations), so a lost update between two copier goroutines shows up as a wrong delivered value; there is no general race detector",
	}, commonAssumptions...)
	c12Text := "bounded model checking: goroutines of the real code (go/ssa) are turned into control-flow automata by symbolic execution between visible operations; the product is unrolled K steps into one SMT formula whose schedule and inputs are solver variables; K is raised until no run of K non-stutter steps exists (completeness threshold), so Final conditions are statements about all complete runs of the configuration. "
	reg(&PropSpec{
		ID: "C12", Level: "model_checking",
		Explanation: c12Text + "C12: Join over k = 0..2 inputs (3 thorough), input i fed by its own producer goroutine (sends n_i <= 2 symbolic tagged values, then closes) or pre-filled and closed (Seq style), input capacities 0..1 (2 thorough), also unequal capacities; one configuration calls Join with a spread slice that the caller overwrites as soon as Join has returned (the inputs are those of the call); with producers n_0+n_1 <= 2 (thorough: 3, unbuffered only), pre-filled n_0+n_1 <= 3 (thorough 4); three inputs: (0,0,0) and pre-filled (1,0,0) (thorough: (1,0,0), pre-filled (1,1,0), (1,1,1), (2,1,0)); one consumer ranging over the output. The consumer projects each received value onto its input (tag) and asserts that it is exactly the element at that input's cursor (per-input order, nothing foreign, nothing twice, nothing beyond n_i); Invariant: closed(out) implies every input is closed and empty, every producer completed, and delivered + buffered == total (closes only after all inputs are drained); Final (every quiescent state): every cursor at n_i, total delivered, out closed and empty, copier and closer goroutines exited (closes after the inputs close - no deadlock); cap(out) == k; k = 0 closes immediately.",
		Assumptions: c12Assumptions,
		Jobs:        c12Jobs,
	})
}

func c12Jobs(tier string) []JobSpec {
	var js []JobSpec
	add := func(k int, ns []int, capc, cap1, seq int) {
		p := map[string]int{"k": k, "cap": capc}
		names := []string{"n0", "n1", "n2"}
		for i := 0; i < k; i++ {
			p[names[i]] = ns[i]
		}
		if cap1 != capc {
			p["cap1"] = cap1
		}
		if seq == 1 {
			p["seq"] = 1
			delete(p, "cap")
		}
		js = append(js, JobSpec{Group: "pipe", Harness: "VJoin", Mode: "bmc", Params: p, K: 48})
	}
	thorough := tier == "thorough"
	caps := []int{0, 1}
	if thorough {
		caps = []int{0, 1, 2}
	}
	// (first job = the one the native self-test runs)
	add(2, []int{1, 1}, 0, 0, 0)
	// the argument slice of a spread call is reused by the caller right after the call
	js = append(js, JobSpec{Group: "pipe", Harness: "VJoin", Mode: "bmc", Params: map[string]int{"k": 2, "cap": 0, "n0": 1, "n1": 1, "spread": 1}, K: 48})
	// k = 0
	add(0, nil, 0, 0, 0)
	// k = 1
	for n0 := 0; n0 <= 2; n0++ {
		for _, c := range caps {
			add(1, []int{n0}, c, c, 0)
		}
		add(1, []int{n0}, 0, 0, 1)
	}
	// k = 2. Measured (16 jobs in parallel): 2 elements in total <= 100 s per job,
	// 3 elements 400..1100 s, pre-filled inputs about 4x cheaper: the quick tier
	// takes n0+n1 <= 2 with producers and n0+n1 <= 3 pre-filled.
	lim, limSeq := 2, 3
	if thorough {
		lim, limSeq = 3, 4
	}
	for n0 := 0; n0 <= 2; n0++ {
		for n1 := 0; n1 <= 2; n1++ {
			if n0+n1 <= lim {
				// three elements with a buffered input exceed the 600 s solver limit
				// (measured: 950..1650 s, 'unknown'): unbuffered only
				heavy := n0+n1 >= 3
				for _, c := range caps {
					if heavy && c > 0 {
						continue
					}
					if n1 <= n0 && !(n0 == 1 && n1 == 1 && c == 0) { // inputs are symmetric when the capacities are equal
						add(2, []int{n0, n1}, c, c, 0)
					}
				}
				if !heavy {
					add(2, []int{n0, n1}, 0, 1, 0) // unequal capacities: no symmetry
				}
			}
			if n1 <= n0 && n0+n1 <= limSeq {
				add(2, []int{n0, n1}, 0, 0, 1)
			}
		}
	}
	// k = 3
	if thorough {
		add(3, []int{1, 0, 0}, 0, 0, 0)
		add(3, []int{1, 1, 0}, 0, 0, 1)
		add(3, []int{1, 1, 1}, 0, 0, 1)
		add(3, []int{2, 1, 0}, 0, 0, 1)
	} else {
		add(3, []int{0, 0, 0}, 0, 0, 0)
		add(3, []int{1, 0, 0}, 0, 0, 1)
	}
	return js
}
