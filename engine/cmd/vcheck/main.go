// vcheck decides one property of fogfish/golem by symbolic execution of the
// repository's SSA form and SMT queries. See /verif/DESIGN.md.
package main

import (
	"encoding/json"
	"flag"
	"fmt"
	"os"
	"os/exec"
	"path/filepath"
	"runtime/pprof"
	"sort"
	"strconv"
	"strings"
	"sync"
	"time"

	"verif.local/engine/interp"
	"verif.local/engine/smt"
)

type JobSpec struct {
	Group   string
	Harness string
	Mode    string // "seq" | "bmc"
	Params  map[string]int
	Solver  string
	Timeout int
	// BMC
	K int
}

func (j JobSpec) Key() string {
	var ks []string
	for k := range j.Params {
		ks = append(ks, k)
	}
	sort.Strings(ks)
	var ps []string
	for _, k := range ks {
		ps = append(ps, fmt.Sprintf("%s=%d", k, j.Params[k]))
	}
	return j.Harness + "{" + strings.Join(ps, ",") + "}"
}

type PropSpec struct {
	ID          string
	Level       string
	Explanation string
	Assumptions []string
	Jobs        func(tier string) []JobSpec
}

type JobResult struct {
	Spec   JobSpec
	Seq    *interp.Results
	BMC    *interp.BMCResult
	Stats  *smt.Stats
	Err    error
	Wall   float64
}

type Finding struct {
	Status        string            `json:"status"`
	Property      string            `json:"property"`
	Harness       string            `json:"harness,omitempty"`
	Label         string            `json:"label,omitempty"`
	Params        map[string]int    `json:"params,omitempty"`
	Commit        string            `json:"commit,omitempty"`
	What          string            `json:"what"`
}

func loadFindings(verif string) []Finding {
	var fs []Finding
	b, err := os.ReadFile(filepath.Join(verif, "known_findings.json"))
	if err != nil {
		return nil
	}
	if err := json.Unmarshal(b, &fs); err != nil {
		fmt.Fprintln(os.Stderr, "known_findings.json:", err)
	}
	return fs
}

func matchFinding(fs []Finding, id, harness, label string, params map[string]int) *Finding {
	for i := range fs {
		f := &fs[i]
		if f.Status != "known" || f.Property != id {
			continue
		}
		if f.Harness != "" && f.Harness != harness {
			continue
		}
		if f.Label != "" && f.Label != label {
			continue
		}
		ok := true
		for k, v := range f.Params {
			if pv, has := params[k]; !has || pv != v {
				ok = false
			}
		}
		if ok {
			return f
		}
	}
	return nil
}

func main() {
	tier := flag.String("tier", "", "quick|thorough")
	repo := flag.String("repo", "/repo", "repository root")
	verif := flag.String("verif", "/verif", "verif root")
	only := flag.String("only", "", "run only harnesses whose name contains this")
	workers := flag.Int("j", 16, "parallel jobs")
	verbose := flag.Bool("v", false, "verbose")
	noReplay := flag.Bool("noreplay", false, "skip native replay of counterexamples")
	replayDir := flag.String("replay", "", "re-run the native replay stored in this directory (written by an earlier run)")
	native := flag.Bool("native", false, "self-test: run every harness natively (compiled, real packages) with all-zero inputs; no assertion may fail")
	cpuprof := flag.String("cpuprofile", "", "write a CPU profile")
	flag.Parse()
	if *cpuprof != "" {
		pf, _ := os.Create(*cpuprof)
		pprof.StartCPUProfile(pf)
		defer pprof.StopCPUProfile()
	}
	if *replayDir != "" {
		os.Setenv("PATH", "/opt/veriftools/go1.26.8/bin:"+os.Getenv("PATH"))
		os.Setenv("GOTOOLCHAIN", "local")
		os.Exit(replayStored(*replayDir, *repo, *verif))
	}
	if flag.NArg() < 1 {
		fmt.Fprintln(os.Stderr, "usage: vcheck [flags] <property-id>")
		os.Exit(2)
	}
	id := flag.Arg(0)
	// the loader and the replays must use the toolchain the engine was built with
	os.Setenv("PATH", "/opt/veriftools/go1.26.8/bin:"+os.Getenv("PATH"))
	os.Setenv("GOTOOLCHAIN", "local")
	if *tier == "" {
		*tier = os.Getenv("VERIF_TIER")
	}
	if *tier == "" {
		*tier = "quick"
	}
	seed := 0
	if s := os.Getenv("VERIF_SEED"); s != "" {
		seed, _ = strconv.Atoi(s)
	}
	for _, kv := range strings.Split(os.Getenv("VERIF_PARAMS"), ",") {
		if parts := strings.SplitN(kv, "=", 2); len(parts) == 2 {
			v, _ := strconv.Atoi(parts[1])
			extraParams[parts[0]] = v
		}
	}
	spec, ok := props[id]
	if !ok {
		fmt.Fprintf(os.Stderr, "unknown property %s\n", id)
		os.Exit(2)
	}
	t0 := time.Now()
	os.RemoveAll(filepath.Join(*verif, "replays", id))
	st, err := interp.NewStage(*repo, *verif)
	if err != nil {
		fmt.Printf("INCONCLUSIVE property=%s reason=stage: %v\n", id, err)
		os.Exit(2)
	}
	defer st.Close()
	if *native {
		code := nativeSmoke(spec, st, *tier, *only)
		st.Close()
		os.Exit(code)
	}
	code := run(spec, st, *tier, seed, *only, *workers, *verbose, *noReplay, t0)
	st.Close()
	pprof.StopCPUProfile()
	os.Exit(code)
}

// thoroughAsQuick: properties whose deeper configurations could not be run to
// completion on the unchanged tree within the session (single jobs of 25-50
// minutes, or depth-3 expression trees that did not finish in 45 minutes).
// Only bounds that ran clean are registered, so for these the thorough command
// explores the same configurations as the quick one.
var thoroughAsQuick = map[string]bool{"C09": true, "C14": true, "C15": true}

func run(spec *PropSpec, st *interp.Stage, tier string, seed int, only string, workers int, verbose, noReplay bool, t0 time.Time) int {
	id := spec.ID
	jobTier := tier
	if tier == "thorough" && thoroughAsQuick[id] && os.Getenv("VERIF_DEEP") == "" {
		jobTier = "quick"
	}
	jobs := spec.Jobs(jobTier)
	if only != "" {
		var f []JobSpec
		for _, j := range jobs {
			if strings.Contains(j.Key(), only) {
				f = append(f, j)
			}
		}
		jobs = f
	}
	// load every group once
	loaded := map[string]*interp.Loaded{}
	for _, j := range jobs {
		if _, ok := loaded[j.Group]; ok {
			continue
		}
		l, err := st.Load(j.Group)
		if err != nil {
			fmt.Printf("INCONCLUSIVE property=%s reason=%v\n", id, err)
			return 2
		}
		loaded[j.Group] = l
	}
	loadS := time.Since(t0).Seconds()
	results := make([]*JobResult, len(jobs))
	var wg sync.WaitGroup
	sem := make(chan struct{}, workers)
	for i := range jobs {
		wg.Add(1)
		go func(i int) {
			defer wg.Done()
			sem <- struct{}{}
			defer func() { <-sem }()
			results[i] = runJob(loaded[jobs[i].Group], jobs[i], verbose)
		}(i)
	}
	wg.Wait()

	findings := loadFindings(st.Verif)
	ev := newEvidence(spec, tier, seed)
	ev.loadSeconds = loadS
	exit := 0
	var inconclusive []string
	knownPrinted := map[string]bool{}
	type pendingViolation struct {
		job  JobSpec
		v    *interp.Violation
		l    *interp.Loaded
		k    int // unrolling depth of the job that found it (BMC)
	}
	var pend []pendingViolation
	for _, r := range results {
		ev.addJob(r)
		if r.Err != nil {
			inconclusive = append(inconclusive, r.Spec.Key()+": "+r.Err.Error())
			continue
		}
		var viols []*interp.Violation
		var unsup, unk []string
		if r.Seq != nil {
			viols, unsup, unk = r.Seq.Violations, r.Seq.Unsupported, r.Seq.Unknown
			if len(r.Seq.AssertsHit) == 0 && len(unsup) == 0 {
				inconclusive = append(inconclusive, r.Spec.Key()+": vacuous (no assertion reached)")
			}
		}
		if r.BMC != nil {
			viols, unsup, unk = r.BMC.Violations, r.BMC.Unsupported, r.BMC.Unknown
		}
		for _, u := range unsup {
			inconclusive = append(inconclusive, r.Spec.Key()+": unsupported: "+u)
		}
		for _, u := range unk {
			inconclusive = append(inconclusive, r.Spec.Key()+": unknown: "+u)
		}
		for _, v := range viols {
			if f := matchFinding(findings, id, r.Spec.Harness, v.Label, r.Spec.Params); f != nil {
				k := f.Harness + "/" + f.Label + "/" + f.What
				if !knownPrinted[k] {
					knownPrinted[k] = true
					fmt.Printf("KNOWN-FINDING: property=%s %s\n", id, f.What)
				}
				ev.known++
				continue
			}
			kk := 0
			if r.BMC != nil {
				kk = r.BMC.K
			}
			pend = append(pend, pendingViolation{r.Spec, v, loaded[r.Spec.Group], kk})
		}
	}
	// replay unknown violations (a few per distinct harness/label)
	seen := map[string]int{}
	nrep := 0
	for _, p := range pend {
		k := p.job.Harness + "/" + p.v.Label
		seen[k]++
		if seen[k] > 2 {
			continue
		}
		nrep++
		dir := filepath.Join(st.Verif, "replays", id, fmt.Sprintf("%03d", nrep))
		os.MkdirAll(dir, 0o755)
		writeCex(dir, p.job, p.v)
		if verbose {
			fmt.Printf("counterexample %s label=%s detail=%s\n", p.job.Key(), p.v.Label, p.v.Detail)
		}
		reproduced, out := true, "replay skipped"
		if !noReplay {
			reproduced, out = replay(st, p.job, p.l, dir)
			if !reproduced && p.job.Mode == "bmc" && p.job.Params["nopor"] == 0 {
				// the partial-order constraint fixes the order of independent steps, and
				// with it the run may not be one the real scheduler produces (the library
				// never waits while it can move): ask again without that constraint, for
				// runs of the same bound, where the minimisation can pick a prompt run
				j2 := p.job
				j2.Params = map[string]int{}
				for k, v := range p.job.Params {
					j2.Params[k] = v
				}
				j2.Params["nopor"], j2.Params["generator"] = 1, 1
				if p.k > 0 {
					j2.K = p.k
				}
				r2 := runJob(p.l, j2, false)
				if r2.Err == nil && r2.BMC != nil {
					for _, v2 := range r2.BMC.Violations {
						if v2.Label != p.v.Label {
							continue
						}
						writeCex(dir, j2, v2)
						reproduced, out = replay(st, j2, p.l, dir)
						break
					}
				}
			}
		}
		os.WriteFile(filepath.Join(dir, "replay.log"), []byte(out), 0o644)
		if reproduced {
			fmt.Printf("VIOLATION property=%s replay=%s harness=%s label=%s\n", id, dir, p.job.Key(), p.v.Label)
			ev.violations++
			exit = 1
		} else {
			inconclusive = append(inconclusive, fmt.Sprintf("%s: counterexample for %q did not reproduce natively (%s)", p.job.Key(), p.v.Label, dir))
		}
	}
	// model vs. runtime: a few harness configurations are also run natively (real
	// goroutines, real channels, under testing/synctest) on the tree as it is; the
	// run must reach quiescence with every Final condition true
	if !noReplay && exit == 0 {
		seenH := map[string]bool{}
		for _, j := range jobs {
			if j.Mode != "bmc" || seenH[j.Harness] || len(seenH) >= 2 || j.Params["generator"] == 1 {
				continue // (generators never reach quiescence natively: no witness run)
			}
			seenH[j.Harness] = true
			dir := filepath.Join(st.Verif, "replays", id, "witness-"+j.Harness)
			os.MkdirAll(dir, 0o755)
			writeCex(dir, j, &interp.Violation{Label: "native-witness"})
			failed, out := replay(st, j, loaded[j.Group], dir)
			if failed || !strings.Contains(out, "ok  ") {
				if matchFinding(findings, id, j.Harness, "", j.Params) == nil {
					inconclusive = append(inconclusive, fmt.Sprintf("%s: the native witness run of the harness does not satisfy its own conditions (model/runtime mismatch?) see %s", j.Key(), dir))
				}
			} else {
				ev.tracesValid++
				os.RemoveAll(dir)
			}
		}
	}
	ev.wall = time.Since(t0).Seconds()
	ev.inconclusive = inconclusive
	// the committed evidence describes full runs against /repo itself: partial
	// (-only) runs and runs against a copy write next to it, under a scratch name
	evPath := filepath.Join(st.Verif, "evidence", id+".json")
	if only != "" || filepath.Clean(st.Repo) != "/repo" {
		evPath = filepath.Join(os.TempDir(), "verif-evidence-scratch-"+id+".json")
	}
	ev.write(evPath)
	if exit == 0 && len(inconclusive) > 0 {
		for i, m := range inconclusive {
			if i >= 10 {
				fmt.Printf("... %d more\n", len(inconclusive)-10)
				break
			}
			fmt.Printf("INCONCLUSIVE property=%s reason=%s\n", id, m)
		}
		return 2
	}
	if exit == 0 {
		fmt.Printf("OK property=%s tier=%s jobs=%d queries=%d wall=%.1fs\n", id, tier, len(jobs), ev.queries, ev.wall)
	}
	return exit
}

var extraParams = map[string]int{}

func runJob(l *interp.Loaded, j JobSpec, verbose bool) (res *JobResult) {
	if len(extraParams) > 0 {
		p := map[string]int{}
		for k, v := range j.Params {
			p[k] = v
		}
		for k, v := range extraParams {
			p[k] = v
		}
		j.Params = p
	}
	t0 := time.Now()
	res = &JobResult{Spec: j}
	defer func() {
		res.Wall = time.Since(t0).Seconds()
		if x := recover(); x != nil {
			if u, ok := x.(interp.Unsupported); ok {
				res.Err = fmt.Errorf("unsupported: %s", u.Msg)
				return
			}
			panic(x)
		}
	}()
	fn := l.Pkg.Func(j.Harness)
	if fn == nil {
		res.Err = fmt.Errorf("harness %s not found in %s", j.Harness, l.Pkg.Pkg.Path())
		return
	}
	switch j.Mode {
	case "bmc":
		r, st, err := interp.RunBMC(l.Prog, l.Sizes, fn, &interp.BMCJob{Harness: j.Harness, Params: j.Params, Solver: j.Solver, Timeout: j.Timeout, K: j.K, Verbose: verbose})
		// a go statement with more live goroutines than modelled: run again with more
		// instances (at most 3) instead of giving up
		for n := 2; n <= 3 && err == nil && r != nil && len(r.Violations) == 0 && hitsSpawnLimit(r.Unsupported); n++ {
			p := map[string]int{}
			for k, v := range j.Params {
				p[k] = v
			}
			p["spawn"] = n
			j.Params = p
			res.Spec = j
			r, st, err = interp.RunBMC(l.Prog, l.Sizes, fn, &interp.BMCJob{Harness: j.Harness, Params: j.Params, Solver: j.Solver, Timeout: j.Timeout, K: j.K, Verbose: verbose})
		}
		res.BMC, res.Stats, res.Err = r, st, err
	default:
		r, st, err := interp.RunSeq(l.Prog, l.Sizes, fn, &interp.SeqJob{Harness: j.Harness, Params: j.Params, Solver: j.Solver, Timeout: j.Timeout})
		res.Seq, res.Stats, res.Err = r, st, err
	}
	if verbose {
		q := 0
		if res.Stats != nil {
			q = res.Stats.Queries
		}
		fmt.Fprintf(os.Stderr, "job %s done in %.1fs queries=%d err=%v\n", j.Key(), time.Since(t0).Seconds(), q, res.Err)
	}
	return
}

func hitsSpawnLimit(us []string) bool {
	for _, u := range us {
		if strings.Contains(u, "model-limit: spawn") {
			return true
		}
	}
	return false
}

func writeCex(dir string, j JobSpec, v *interp.Violation) {
	type cex struct {
		Harness  string            `json:"harness"`
		Label    string            `json:"label"`
		Detail   string            `json:"detail"`
		Vals     map[string]string `json:"vals"`
		UFs      map[string]string `json:"ufs"`
		Trace    []string          `json:"trace,omitempty"`
		Decision []int             `json:"decisions,omitempty"`
	}
	c := cex{Harness: j.Key(), Label: v.Label, Detail: v.Detail, Vals: v.Vals, UFs: v.UFs, Trace: v.Trace, Decision: v.Decision}
	if c.Vals == nil {
		c.Vals = map[string]string{}
	}
	for k, p := range j.Params {
		c.Vals["param:"+k] = strconv.Itoa(p)
	}
	b, _ := json.MarshalIndent(c, "", " ")
	os.WriteFile(filepath.Join(dir, "cex.json"), b, 0o644)
	jb, _ := json.MarshalIndent(j, "", " ")
	os.WriteFile(filepath.Join(dir, "job.json"), jb, 0o644)
}

// replayStored re-runs a stored counterexample against the current tree.
func replayStored(dir, repo, verif string) int {
	var j JobSpec
	b, err := os.ReadFile(filepath.Join(dir, "job.json"))
	if err != nil || json.Unmarshal(b, &j) != nil {
		fmt.Println("cannot read", filepath.Join(dir, "job.json"))
		return 2
	}
	st, err := interp.NewStage(repo, verif)
	if err != nil {
		fmt.Println(err)
		return 2
	}
	defer st.Close()
	l, err := st.Load(j.Group)
	if err != nil {
		fmt.Println(err)
		return 2
	}
	ok, out := replay(st, j, l, dir)
	fmt.Println(out)
	if ok {
		fmt.Println("REPLAY: the counterexample reproduces on this tree")
		return 1
	}
	fmt.Println("REPLAY: the counterexample does not reproduce on this tree")
	return 0
}

// replay runs the very same harness natively (real compiler, real package)
// with the counterexample's inputs and reports whether an assertion fails.
func replay(st *interp.Stage, j JobSpec, l *interp.Loaded, dir string) (bool, string) {
	ov, err := st.Overlay(j.Group, true)
	if err != nil {
		return false, err.Error()
	}
	h := st.Hosts[j.Group]
	pkgName := l.Pkg.Pkg.Name()
	call := "vrt.Run(" + j.Harness + ")"
	if j.Mode == "bmc" {
		call = "vrt.BMCTest(t, " + j.Harness + ")"
	}
	test := fmt.Sprintf(`package %s

import (
	"testing"

	"verif.local/vrt"
)

func TestVerifReplay(t *testing.T) {
	fails, applicable, p := %s
	t.Logf("replay: %%s", vrt.Describe(fails, applicable, p))
	if !applicable {
		t.Log("NOTAPPLICABLE")
		return
	}
	if len(fails) > 0 || p != nil {
		t.Fatalf("REPRODUCED %%v %%v", fails, p)
	}
}
`, pkgName, call)
	testPath := filepath.Join(dir, "zz_verif_replay_test.go")
	os.WriteFile(testPath, []byte(test), 0o644)
	repl := map[string]string{filepath.Join(h.Dir, "zz_verif_replay_test.go"): testPath}
	for virt, content := range ov {
		real := filepath.Join(dir, filepath.Base(virt))
		os.WriteFile(real, content, 0o644)
		repl[virt] = real
	}
	ob, _ := json.Marshal(map[string]interface{}{"Replace": repl})
	ovPath := filepath.Join(dir, "overlay.json")
	os.WriteFile(ovPath, ob, 0o644)
	cmd := exec.Command("go", "test", "-vet=off", "-count=1", "-run", "^TestVerifReplay$", "-overlay", ovPath, "-timeout", "120s", "-v", ".")
	cmd.Dir = h.Dir
	cmd.Env = append(st.Env(), "VRT_CEX="+filepath.Join(dir, "cex.json"))
	out, _ := cmd.CombinedOutput()
	s := string(out)
	script := fmt.Sprintf("#!/bin/sh\n# replays this counterexample natively (real toolchain, real packages) against the current /repo\nexec /verif/bin/vcheck -replay %s\n", dir)
	os.WriteFile(filepath.Join(dir, "replay.sh"), []byte(script), 0o755)
	// a panic in a library goroutine takes the test binary down: that is a reproduction too
	crashed := strings.Contains(s, "\npanic: ") || strings.HasPrefix(s, "panic: ")
	if strings.Contains(s, "REPRODUCED") || crashed {
		return true, s
	}
	// A counterexample that goes through unsynchronised accesses of a cell shared
	// by library goroutines needs a pre-emption inside a window of a few
	// instructions, which the replay driver cannot force. The defect behind it is
	// a data race: run the same replay under the race detector and accept its
	// report (inside the package under test) as the native observation.
	if cexHasSharedCellStep(filepath.Join(dir, "cex.json")) {
		cmd := exec.Command("go", "test", "-race", "-vet=off", "-count=1", "-run", "^TestVerifReplay$", "-overlay", ovPath, "-timeout", "300s", "-v", ".")
		cmd.Dir = h.Dir
		cmd.Env = append(st.Env(), "VRT_CEX="+filepath.Join(dir, "cex.json"), "CGO_ENABLED=1")
		out2, _ := cmd.CombinedOutput()
		s2 := string(out2)
		s += "\n---- second attempt under the race detector (go test -race) ----\n" + s2
		if strings.Contains(s2, "WARNING: DATA RACE") && strings.Contains(s2, l.Pkg.Pkg.Path()) {
			return true, s + "\nREPRODUCED as a data race reported by the Go race detector\n"
		}
		if strings.Contains(s2, "REPRODUCED") {
			return true, s
		}
	}
	return false, s
}

func cexHasSharedCellStep(path string) bool {
	b, err := os.ReadFile(path)
	if err != nil {
		return false
	}
	var c struct {
		Trace []string `json:"trace"`
	}
	if json.Unmarshal(b, &c) != nil {
		return false
	}
	for _, t := range c.Trace {
		if strings.Contains(t, "of a shared cell") || strings.Contains(t, "to a shared cell") {
			return true
		}
	}
	return false
}

// nativeSmoke compiles the harnesses with the real toolchain and runs each
// once with default (zero) inputs: a differential check of the interpreter's
// verdict "no assertion can fail" against the real packages.
func nativeSmoke(spec *PropSpec, st *interp.Stage, tier, only string) int {
	seen := map[string]bool{}
	rc := 0
	for _, j := range spec.Jobs(tier) {
		if seen[j.Group+"/"+j.Harness] || (only != "" && !strings.Contains(j.Key(), only)) {
			continue
		}
		seen[j.Group+"/"+j.Harness] = true
		l, err := st.Load(j.Group)
		if err != nil {
			fmt.Println("load:", err)
			return 2
		}
		dir := filepath.Join(st.Verif, "replays", spec.ID, "native-"+j.Harness)
		os.MkdirAll(dir, 0o755)
		writeCex(dir, j, &interp.Violation{Label: "native-smoke"})
		failed, out := replay(st, j, l, dir)
		status := "ok"
		if failed || !strings.Contains(out, "ok  ") {
			status = "FAILED"
			rc = 1
			fmt.Println(out)
		}
		fmt.Printf("native %s %s\n", j.Key(), status)
		os.RemoveAll(dir)
	}
	return rc
}
