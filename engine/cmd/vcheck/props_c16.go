package main

// C16: duct builds the AST its combinators describe; visits are well bracketed.

// The typing relation of the harness (harness/duct/zz_verif_c16.go, vnext),
// repeated here only to enumerate the well-typed (start, op0, op1) prefixes
// that the jobs fix: an ill-typed prefix would be a vacuous job.
const (
	c16I0 = iota
	c16I1
	c16I2
	c16I3
	c16S0
	c16S1
	c16P0
	c16P1
	c16Void
)

const (
	c16JoinSame = iota
	c16JoinUp
	c16JoinDown
	c16JoinX
	c16JoinP
	c16LiftSame
	c16LiftX
	c16Wrap
	c16Unit
	c16Yield
	c16Stop
	c16Ops
)

func c16Up(t int) int {
	switch t {
	case c16I0:
		return c16I1
	case c16I1:
		return c16I2
	case c16I2:
		return c16I3
	case c16S0:
		return c16S1
	case c16P0:
		return c16P1
	}
	return -1
}

func c16Down(t int) int {
	switch t {
	case c16I1:
		return c16I0
	case c16I2:
		return c16I1
	case c16I3:
		return c16I2
	case c16S1:
		return c16S0
	case c16P1:
		return c16P0
	}
	return -1
}

func c16Next(t, op int) int {
	if t == c16Void {
		return -1
	}
	switch op {
	case c16JoinSame:
		return t
	case c16JoinUp, c16Unit:
		return c16Up(t)
	case c16JoinDown, c16LiftSame, c16Wrap:
		return c16Down(t)
	case c16JoinX:
		switch t {
		case c16I0:
			return c16S0
		case c16S0, c16P0:
			return c16I0
		}
	case c16JoinP:
		if t == c16I0 {
			return c16P0
		}
	case c16LiftX:
		switch t {
		case c16I1:
			return c16S0
		case c16S1, c16I2, c16P1:
			return c16I0
		case c16I3:
			return c16I1
		}
	case c16Yield:
		return c16Void
	}
	return -1
}

func init() {
	reg(&PropSpec{
		ID: "C16", Level: "other",
		Explanation: seqLevelText + ". C16: every well-typed linear program From; op_1 .. op_n with n <= steps (VDuctTrace: 5 quick, 7 thorough; VDuctFail: 4 quick, 6 thorough) and op in {Join f:B->B, Join f:B->[]B, Join f:[]B->B, Join across int/string/*int, LiftF f:B->B, LiftF f:B->C, WrapF, Unit, Yield (ends the program), stop} over the type ladder int, []int, [][]int, [][][]int, string, []string, *int, []*int and the start types From[int], From[[][]int], From[string], From[[]*int]. The opcode of every step is a forked choice; a state machine over the live target type calls the correspondingly instantiated generic (ill-typed steps are pruned), so every program is the real, type-checked composition. A specification interpreter with an explicit stack of open contexts builds the expected tree (Join/Yield into the innermost open context, LiftF/WrapF open a nested one there, Unit closes the innermost non-root one); its flattening (callback kind, depth, type names from TypeOf of the step's type parameters and, separately, literal names, payload identity, child count, Root/Deferred flags) must equal the recorded visit callback by callback. Independently of the specification the recorded trace is checked for bracketing: depth = number of unfinished enters, every leave equals the latest unfinished enter, one root morphism at depth 0, first and last. VDuctFail revisits every program once per callback position at which the visitor returns a sentinel error (and once more never failing): the callbacks seen must be exactly the expected prefix up to and including that callback (kind and depth compared as they arrive, none after it), Apply must return that very error (nil when it never fails), and a final recording visit must still equal the expected trace (aborted visits leave the tree unchanged). All data here is concrete, so assertions are decided by evaluation on every one of the enumerated paths.",
		Assumptions: append([]string{
			"programs longer than the bound, element types outside the ladder and non-linear programs (an intermediate morphism composed twice) are outside the claim",
			"the source type parameter A of Morphism[A,B] is phantom for every combinator but From; the harness re-wraps From[A]'s result as Morphism[int,A] (same *AstSeq) to keep one set of typed variables",
			"Yield ends a program (nothing is composed onto a Morphism[A,Void])",
			"reflect.TypeOf(new(T)).Elem(), Kind and Name are modelled from go/types; the native self-test (-native) runs the same harness against the real reflect package",
		}, commonAssumptions...),
		Jobs: func(tier string) []JobSpec {
			// the failing-visitor harness revisits every program once per callback
			// position: it runs one step shorter than the trace harness
			stepsTrace, stepsFail, fixed := 5, 4, 2
			if tier == "thorough" {
				stepsTrace, stepsFail, fixed = 7, 6, 3
			}
			starts := []int{c16I0, c16I2, c16S0, c16P1} // harness start index -> start type
			names := []string{"op0", "op1", "op2"}
			var js []JobSpec
			// one job per well-typed prefix of `fixed` opcodes (shorter when the
			// prefix ends the program with Yield or stop)
			var gen func(h string, steps, t, depth int, p map[string]int)
			gen = func(h string, steps, t, depth int, p map[string]int) {
				if depth == fixed || depth == steps {
					js = append(js, JobSpec{Group: "duct", Harness: h, Mode: "seq", Params: p})
					return
				}
				for op := 0; op < c16Ops; op++ {
					nt := c16Next(t, op)
					if op != c16Stop && nt < 0 {
						continue
					}
					q := map[string]int{}
					for k, v := range p {
						q[k] = v
					}
					q[names[depth]] = op
					if op == c16Stop || op == c16Yield {
						js = append(js, JobSpec{Group: "duct", Harness: h, Mode: "seq", Params: q})
						continue
					}
					gen(h, steps, nt, depth+1, q)
				}
			}
			for si, t0 := range starts {
				gen("VDuctTrace", stepsTrace, t0, 0, map[string]int{"steps": stepsTrace, "start": si})
				gen("VDuctFail", stepsFail, t0, 0, map[string]int{"steps": stepsFail, "start": si})
			}
			return js
		},
	})
}
