package main

import (
	"encoding/json"
	"fmt"
	"os"
	"path/filepath"
	"sort"
)

type evidence struct {
	spec         *PropSpec
	tier         string
	seed         int
	wall         float64
	loadSeconds  float64
	violations   int
	known        int
	queries      int
	sat, unsat   int
	unknown      int
	solverS      float64
	maxQuery     float64
	paths        int
	syntactic    int
	crossChecked, crossDisagree, crossUnknown int
	nontrivial   int
	jobs         []map[string]interface{}
	samples      []interface{}
	funcs        map[string]int
	stubs        map[string]int
	asserts      map[string]int
	assertsTriv  map[string]int
	covers       map[string]int
	inconclusive []string
	states       int
	transitions  int
	tracesValid  int
	bmcSteps     int
	solvers      map[string]int
}

func newEvidence(spec *PropSpec, tier string, seed int) *evidence {
	return &evidence{spec: spec, tier: tier, seed: seed, funcs: map[string]int{}, stubs: map[string]int{}, asserts: map[string]int{}, assertsTriv: map[string]int{}, covers: map[string]int{}, solvers: map[string]int{}}
}

func (e *evidence) addJob(r *JobResult) {
	j := map[string]interface{}{"harness": r.Spec.Key(), "mode": r.Spec.Mode, "wall_s": round(r.Wall)}
	if r.Err != nil {
		j["error"] = r.Err.Error()
	}
	if r.Stats != nil {
		e.queries += r.Stats.Queries
		e.sat += r.Stats.Sat
		e.unsat += r.Stats.Unsat
		e.unknown += r.Stats.Unknown
		e.solverS += r.Stats.Seconds
		if r.Stats.MaxQuery > e.maxQuery {
			e.maxQuery = r.Stats.MaxQuery
		}
		j["queries"] = r.Stats.Queries
		j["solver_s"] = round(r.Stats.Seconds)
	}
	sv := r.Spec.Solver
	if sv == "" {
		sv = "z3new"
	}
	e.solvers[sv]++
	if s := r.Seq; s != nil {
		e.paths += s.Paths
		e.nontrivial += s.Nontrivial
		e.syntactic += s.Syntactic
		e.crossChecked += s.CrossChecked
		e.crossDisagree += s.CrossDisagree
		e.crossUnknown += s.CrossUnknown
		j["paths"] = s.Paths
		j["infeasible_paths"] = s.Infeasible
		j["violations"] = len(s.Violations)
		for k, v := range s.Funcs {
			e.funcs[k] += v
		}
		for k, v := range s.Stubs {
			e.stubs[k] += v
		}
		for k, v := range s.AssertsHit {
			e.asserts[k] += v
		}
		for k, v := range s.AssertsTriv {
			e.assertsTriv[k] += v
		}
		for k, v := range s.Covers {
			e.covers[k] += v
		}
		for _, x := range s.Samples {
			if len(e.samples) < 12 {
				e.samples = append(e.samples, r.Spec.Key()+": "+x)
			}
		}
	}
	if b := r.BMC; b != nil {
		e.states += b.States
		e.transitions += b.Transitions
		e.tracesValid += b.TracesValidated
		e.nontrivial += b.Configs
		e.paths += b.Configs
		j["configs"] = b.Configs
		j["K"] = b.K
		j["locations"] = b.States
		j["transitions"] = b.Transitions
		j["violations"] = len(b.Violations)
		j["witnesses"] = b.Witnesses
		for k, v := range b.Funcs {
			e.funcs[k] += v
		}
		for k, v := range b.Stubs {
			e.stubs[k] += v
		}
		for k, v := range b.Asserts {
			e.asserts[k] += v
		}
		for k, v := range b.Covers {
			e.covers[k] += v
		}
		for _, x := range b.Samples {
			if len(e.samples) < 12 {
				e.samples = append(e.samples, r.Spec.Key()+": "+x)
			}
		}
	}
	e.jobs = append(e.jobs, j)
}

func round(x float64) float64 { return float64(int(x*1000)) / 1000 }

func topN(m map[string]int, n int) []string {
	type kv struct {
		k string
		v int
	}
	var xs []kv
	for k, v := range m {
		xs = append(xs, kv{k, v})
	}
	sort.Slice(xs, func(i, j int) bool {
		if xs[i].v != xs[j].v {
			return xs[i].v > xs[j].v
		}
		return xs[i].k < xs[j].k
	})
	var out []string
	for i, x := range xs {
		if i >= n {
			break
		}
		out = append(out, fmt.Sprintf("%s x%d", x.k, x.v))
	}
	return out
}

func (e *evidence) write(path string) {
	cov := map[string]interface{}{
		"evaluations":         e.queries + e.syntactic,
		"distinct_nontrivial": e.nontrivial,
		"rule":                "evaluations = proof obligations decided = SMT queries discharged (branch feasibility, assertions, witnesses) + assertions whose condition the hash-consing term normaliser reduced to true (both sides the identical term over the symbolic inputs; counted separately as decided_by_term_identity); distinct_nontrivial = distinct (harness, parameters, path/configuration) that reached an assertion with at least one symbolic input or one forked shape choice (program / tree / script opcode) in scope",
		"decided_by_term_identity": e.syntactic,
		"decided_by_solver":   e.queries,
		"cross_solver_check":  map[string]interface{}{"second_solver": "cvc5 1.0.3", "assertion_queries_rechecked": e.crossChecked, "disagreements": e.crossDisagree, "second_solver_unknown": e.crossUnknown},
		"explanation":         e.spec.Explanation,
		"samples":             e.samples,
		"paths_or_configurations": e.paths,
		"queries":             map[string]interface{}{"total": e.queries, "sat": e.sat, "unsat": e.unsat, "unknown": e.unknown, "solver_seconds": round(e.solverS), "max_query_seconds": round(e.maxQuery)},
		"solvers":             e.solvers,
		"functions_encoded":   topN(e.funcs, 400),
		"stubs_and_models":    topN(e.stubs, 100),
		"assertions_reached":  e.asserts,
		"assertions_trivially_true": e.assertsTriv,
		"covers_reached":      e.covers,
		"jobs":                e.jobs,
		"known_findings_seen": e.known,
		"inconclusive":        e.inconclusive,
		"load_seconds":        round(e.loadSeconds),
		"exhaustive":          false,
	}
	if e.spec.Level == "model_checking" {
		cov["states"] = e.states
		cov["transitions"] = e.transitions
		cov["traces_validated_against_impl"] = e.tracesValid
	}
	if len(e.samples) == 0 {
		cov["samples"] = []interface{}{"(no sample recorded)"}
	}
	doc := map[string]interface{}{
		"property_id": e.spec.ID,
		"tier":        e.tier,
		"seed":        e.seed,
		"level":       e.spec.Level,
		"coverage":    cov,
		"assumptions": e.spec.Assumptions,
		"wall_s":      round(e.wall),
		"violations":  e.violations,
	}
	os.MkdirAll(filepath.Dir(path), 0o755)
	b, _ := json.MarshalIndent(doc, "", " ")
	os.WriteFile(path, b, 0o644)
}
