package main

import "sort"

// C09: the parallel (fork) stages process every element exactly once.
// Harnesses: /verif/harness/fork/zz_verif_c09.go (+ zz_verif_forkutil.go).

var c09Assumptions = []string{
	"the Go channel runtime, select, close, context cancellation, sync.WaitGroup (Add before the workers start, deferred Done, Wait) and the scheduler are MODELLED from their documented semantics (buffered FIFO, rendez-vous as a joint step, any ready select arm may fire, default only if no arm is buffer-ready, send/close on closed panics, negative WaitGroup counter panics); the claim is 'golem is right if these behave as documented'",
	"every interleaving of the bounded configuration is a value of the symbolic schedule (which worker takes which element and the order in which in-flight results are delivered included); claims hold for runs of the stated configurations only (input length, producer capacity, worker count, consumer behaviour)",
	"a lexicographic partial-order constraint prunes equivalent interleavings (sound: every Mazurkiewicz trace keeps its minimal linearisation; runs may stop early at any step, so every reachable state is represented); worker symmetry is not exploited",
	"input elements are pairwise distinct by construction (index tag in the two low bits, upper 62 bits symbolic) and the stage functions keep that tag in their result (upper bits uninterpreted): the stages are generic and cannot inspect elements, so that a value identifies its element and the multiset comparison reduces to boolean 'applied / received / error received' flags per element",
	"user arrows passed to FMap honour their context (a blocked emit gives way to cancellation) and decide failure before emitting; Filter/Partition predicates that fail return (true, err): the element must be treated as not selected, as the sequential stages do",
	"data races: the engine turns every load/store of a cell that one library goroutine writes and another one accesses into a step of its own (so a worker variable hoisted out of the worker closure shows up as lost/duplicated elements under some interleaving); in today's pipe/fork no such cell exists - everything shared between library goroutines is a channel, the WaitGroup or the context. The harness's own ghost flags, updated inside user callbacks, are deliberately atomic",
	"go/ssa (x/tools v0.50.0, generics instantiated) is a faithful lowering of the Go source; the interpreter's semantics is validated by native replay of counterexamples",
	"integers are fixed-width bit-vectors with Go's wrap-around semantics; user-supplied functions are uninterpreted functions",
	"solver answers (z3 5.1 primary) are trusted; any error/unknown/timeout makes the check inconclusive (exit 2), never a pass",
}

const c09Text = "bounded model checking: goroutines of the real code (go/ssa) are turned into control-flow automata by symbolic execution between visible operations; the product is unrolled K steps into one SMT formula whose schedule, inputs, stage functions (uninterpreted) and failure pattern are solver variables; K is raised until no run of K non-stutter steps exists (completeness threshold), so Final conditions are statements about all complete runs of the configuration. " +
	"C09: fork.Map (Pure / Try / Lift), fork.FMap (LiftF without failures / TryF / LiftF, arrow emitting 1..2 values per element), fork.Filter and fork.Partition (Pure / failing predicate), fork.ForEach (Pure, and Try / Lift of a function failing on an uninterpreted set: the outcome is ignored as in pipe.ForEach) and fork.Void with par workers, a producer goroutine (send n elements, close) and one consumer goroutine per returned channel. " +
	"Scenarios per stage: (a) no cancellation, consumers receive until close: at quiescence every output is closed, every worker and the closer goroutine have returned, every element has been applied exactly once and the received values/errors are exactly the image multiset (Try: one error per failing element; Lift: everything computed before the abort is delivered, at most one error per worker); (b) a canceller goroutine that may fire at any step, consumers as in (a): whenever the context is cancelled the stage winds up (outputs closed, library goroutines gone) and nothing is duplicated or invented; (c) cancel with consumers that never receive: the same wind-up with nobody draining the outputs; (thorough) consumers that stop after one value. At every step: no panic (send on / close of a closed channel, negative WaitGroup), every application is of a not-yet-applied input element, every received value is the image of a not-yet-received element. " +
	"Bounds: quick = workers 1..2, n 0..2, producer capacity 0 (capacity 1 for the uncancelled scenario with n>=1), with the configurations that take minutes (workers=2 with n=2 and eager consumers for Try/Lift/Partition/FMap; FMap under cancellation with workers=2) left to the thorough tier; thorough = all of workers 1..2 x n 0..2 x capacity 0..1 x scenarios, consumers stopping after one value, workers=3 with n<=1, and workers=1 with n=3."

type c09Stage struct {
	h     string
	key   string
	modes []int
}

var c09Stages = []c09Stage{
	{"VForkMap", "mode", []int{0, 1, 2}},
	{"VForkFMap", "mode", []int{0, 1, 2}},
	{"VForkFilter", "mode", []int{0, 1}},
	{"VForkPartition", "mode", []int{0, 1}},
	{"VForkForEach", "void", []int{0, 1, 2, 3}},
}

// c09Quick decides whether a configuration belongs to the quick tier (measured
// on 16 busy cores: everything kept here finishes in about 90 s or less).
func c09Quick(h string, mode, par, n, capc, cancel, take int) bool {
	if take > 0 || par > 2 || n > 2 {
		return false
	}
	if h == "VForkForEach" && mode >= 2 {
		// ForEach with a failing function: the scenarios where it matters
		return n >= 1 && take < 0 && capc == 0
	}
	if capc == 1 {
		// capacity 1 only for the plain scenario of the cheap configurations
		return cancel == 0 && n >= 1 && (par == 1 || n == 1) && !(h == "VForkFMap" && (par == 2 || n == 2))
	}
	if n == 0 {
		return true
	}
	fmap := h == "VForkFMap"
	if par == 1 {
		return !(fmap && n == 2 && cancel == 1 && take < 0)
	}
	if n == 1 {
		return !(fmap && cancel == 1 && take < 0)
	}
	// two workers, two elements
	if take == 0 {
		return !fmap || mode == 0
	}
	if h == "VForkForEach" {
		return true
	}
	return cancel == 0 && mode == 0 && (h == "VForkMap" || h == "VForkFilter")
}

func c09Weight(j JobSpec) int {
	p := j.Params
	w := (p["n"] + 1) * (p["n"] + 1) * p["par"] * p["par"]
	if p["take"] != 0 {
		w *= 3
	}
	if p["cancel"] == 1 {
		w *= 2
	}
	switch j.Harness {
	case "VForkFMap":
		w *= 4
	case "VForkPartition":
		w *= 2
	}
	if p["mode"] != 0 {
		w = w * 3 / 2
	}
	return w
}

func init() {
	reg(&PropSpec{
		ID: "C09", Level: "model_checking",
		Explanation: c09Text,
		Assumptions: c09Assumptions,
		Jobs: func(tier string) []JobSpec {
			var js []JobSpec
			add := func(st c09Stage, mode, par, n, capc, cancel, take int) {
				if tier != "thorough" && !c09Quick(st.h, mode, par, n, capc, cancel, take) {
					return
				}
				js = append(js, JobSpec{Group: "fork", Harness: st.h, Mode: "bmc", K: 40,
					Params: map[string]int{"par": par, "n": n, "cap": capc, st.key: mode, "cancel": cancel, "take": take}})
			}
			for _, st := range c09Stages {
				for _, mode := range st.modes {
					for _, par := range []int{1, 2} {
						for _, n := range []int{0, 1, 2} {
							for _, capc := range []int{0, 1} {
								if n == 0 && capc == 1 {
									continue
								}
								for _, sc := range [][2]int{{0, -1}, {1, -1}, {1, 0}, {1, 1}} {
									if sc[1] == 1 && n < 2 {
										continue // stopping after one value differs from draining only with two values
									}
									add(st, mode, par, n, capc, sc[0], sc[1])
								}
							}
						}
					}
					if tier == "thorough" {
						for _, n := range []int{0, 1} {
							add(st, mode, 3, n, 0, 0, -1)
							add(st, mode, 3, n, 0, 1, 0)
						}
						add(st, mode, 1, 3, 0, 0, -1)
						add(st, mode, 1, 3, 0, 1, 0)
					}
				}
			}
			// three workers for the cheapest stage (worker-count arithmetic)
			if tier != "thorough" {
				js = append(js, JobSpec{Group: "fork", Harness: "VForkForEach", Mode: "bmc", K: 40,
					Params: map[string]int{"par": 3, "n": 1, "cap": 0, "void": 1, "cancel": 0, "take": -1}})
			}
			// long jobs first
			sort.SliceStable(js, func(a, b int) bool { return c09Weight(js[a]) > c09Weight(js[b]) })
			return js
		},
	})
}
