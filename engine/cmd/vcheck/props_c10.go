package main

// C10: fork.Fold equals the sequential fold for any commutative monoid.
// Harness: /verif/harness/fork/zz_verif_c10.go.

var c10Assumptions = []string{
	"the Go channel runtime, select, close, sync.WaitGroup, deferred calls and the scheduler are MODELLED from their documented semantics (buffered FIFO, rendez-vous as a joint step, default only if no arm is buffer-ready, send/close on closed panics); the claim is 'golem is right if these behave as documented'",
	"every interleaving of the bounded configuration is a value of the symbolic schedule (which worker folds which element, in which order the partial results reach the collector); claims hold for runs of the stated configurations only (input length, producer capacity, worker count)",
	"a lexicographic partial-order constraint prunes equivalent interleavings (sound: every Mazurkiewicz trace keeps its minimal linearisation); worker symmetry is not exploited",
	"'every commutative monoid' is represented by two families whose identity element e is a solver variable - a(+)b = a^b^e and a(+)b = a+b-e, each a commutative monoid for every e - plus bit-wise and/all-ones and max/minimum as fixed instances; other monoids are outside the claim. The context is never cancelled (the statement is about complete folds)",
	"the element type is uint8 in most jobs (fork.Fold is generic and cannot inspect elements; Z_256 keeps the equivalence of differently associated sums cheap); two jobs repeat the check over 64-bit ints",
	"go/ssa (x/tools v0.50.0, generics instantiated) is a faithful lowering of the Go source; the interpreter's semantics is validated by native replay of counterexamples",
	"solver answers (z3 5.1 primary) are trusted; any error/unknown/timeout makes the check inconclusive (exit 2), never a pass",
}

const c10Text = "bounded model checking: goroutines of the real code (go/ssa) are turned into control-flow automata by symbolic execution between visible operations; the product is unrolled K steps into one SMT formula whose schedule, inputs and the monoid's identity element are solver variables; K is raised until no run of K non-stutter steps exists (completeness threshold), so the Final condition is a statement about all complete runs of the configuration. " +
	"C10: fork.Fold with par workers (each folding the elements it happens to receive from Empty(), publishing its partial result from a deferred function) and the collector goroutine (WaitGroup, merge of par partial results, one send, close), a producer goroutine (send n elements, close) and a consumer that receives until the result channel is closed. The consumer asserts that the first value equals the left fold of the input from the identity computed sequentially in the set-up (what pipe.Fold delivers) and that there is no second value; at quiescence: exactly one value received, the operation applied exactly n+par times (once per element, once per partial result), result channel closed, every library goroutine returned, producer not blocked. " +
	"Bounds: quick = workers 1..2 with n 0..3 and workers 3 with n=0 (xor family, symbolic identity), producer capacity 0 (capacity 1 for workers=2), the additive family for workers=1 n<=3 and workers=2 n=1, and/max instances for workers=2 n=2, 64-bit elements for workers=2 n=1; thorough adds workers=3 n=1, n=4 for one worker (xor family only: the additive family hits the solver time limit at n=4), capacity 1 with n=3, the additive family and 64-bit elements with workers=2 n=2. workers=3 with n>=2 was not decided within 5 minutes per query and is outside both tiers."

func init() {
	reg(&PropSpec{
		ID: "C10", Level: "model_checking",
		Explanation: c10Text,
		Assumptions: c10Assumptions,
		Jobs: func(tier string) []JobSpec {
			var js []JobSpec
			add := func(par, n, capc, mon, wide int) {
				js = append(js, JobSpec{Group: "fork", Harness: "VForkFold", Mode: "bmc", K: 40,
					Params: map[string]int{"par": par, "n": n, "cap": capc, "mon": mon, "wide": wide}})
			}
			for _, par := range []int{2, 1} {
				for _, n := range []int{3, 2, 1, 0} {
					add(par, n, 0, 0, 0)
				}
			}
			add(3, 0, 0, 0, 0)
			add(2, 2, 1, 0, 0)
			add(2, 1, 1, 0, 0)
			for _, n := range []int{3, 2, 1} {
				add(1, n, 0, 1, 0)
			}
			add(2, 1, 0, 1, 0)
			add(2, 2, 0, 2, 0)
			add(2, 2, 0, 3, 0)
			add(2, 1, 0, 0, 1)
			if tier == "thorough" {
				add(3, 1, 0, 0, 0)
				add(2, 3, 1, 0, 0)
				add(2, 2, 0, 1, 0)
				add(2, 2, 0, 0, 1)
				add(1, 4, 0, 0, 0)
				// (n=4 with the additive family: solver time limit, measured twice - not registered)
			}
			return js
		},
	})
}
