package main

import "fmt"

var props = map[string]*PropSpec{}

func reg(p *PropSpec) { props[p.ID] = p }

const seqLevelText = "bounded symbolic execution of the real code's go/ssa form; every assertion is discharged by an SMT query over all values on that path (unsat = holds for every input within the stated bounds)"

var commonAssumptions = []string{
	"go/ssa (x/tools v0.50.0, generics instantiated) is a faithful lowering of the Go source; the interpreter's semantics of the ~35 SSA instruction kinds is validated by native replay of counterexamples",
	"integers are fixed-width bit-vectors with Go's wrap-around semantics; user-supplied functions are uninterpreted functions",
	"solver answers (z3 5.1 primary) are trusted; any error/unknown/timeout makes the check inconclusive (exit 2), never a pass",
}

func init() {
	reg(&PropSpec{
		ID: "C20", Level: "other",
		Explanation: seqLevelText + ". C20: for N=2..20 PipeN is applied to N distinct uninterpreted functions and a symbolic argument; result term must equal f_N(...f_1(a)) and every ghost call counter must be exactly 1 per application. Bound: N<=20 (the whole API); nothing else is bounded.",
		Assumptions: commonAssumptions,
		Jobs: func(tier string) []JobSpec {
			var js []JobSpec
			for n := 2; n <= 20; n++ {
				js = append(js, JobSpec{Group: "internalpipe", Harness: fmt.Sprintf("VPipe%d", n), Mode: "seq"})
			}
			return js
		},
	})
	reg(&PropSpec{
		ID: "C17", Level: "other",
		Explanation: seqLevelText + ". C17: eq.Int/eq.String/ord.Int/ord.String laws over symbolic 64-bit ints and symbolic byte strings (length <= 2 quick, <= 3 thorough; Go's byte-wise lexicographic order written out as a formula); ContraMap/From/monoid constructors against uninterpreted (non-symmetric, non-commutative) base functions.",
		Assumptions: append([]string{"strings longer than the bound are outside the claim; the string comparison itself is the Go primitive, what is checked is golem's mapping of it to LT/EQ/GT"}, commonAssumptions...),
		Jobs: func(tier string) []JobSpec {
			n := 2
			if tier == "thorough" {
				n = 3
			}
			p := map[string]int{"strlen": n}
			var js []JobSpec
			for _, h := range []string{"VEqInt", "VEqString", "VOrdInt", "VOrdString", "VContraMap", "VFrom", "VMonoid"} {
				js = append(js, JobSpec{Group: "ord", Harness: h, Mode: "seq", Params: p})
			}
			return js
		},
	})
	reg(&PropSpec{
		ID: "C19", Level: "other",
		Explanation: seqLevelText + ". C19: every script of Cons/Tail of length <= steps (3 quick, 5 thorough) over two registers initialised with New of 0..2 (thorough 0..3) symbolic elements, on the list and the slice implementation and a plain-slice reference; after each step every live register is read back through Head/Tail/Length/IsEmpty and folded with an uninterpreted (non-commutative) monoid with symbolic identity. Scripts are forked (symbolic opcode), element values and the monoid are solver variables.",
		Assumptions: append([]string{"Head/Tail of an empty sequence are outside the ADT (excluded by Assume)", "sequences longer than init+steps elements and scripts longer than the bound are outside the claim"}, commonAssumptions...),
		Jobs: func(tier string) []JobSpec {
			steps, kmax := 3, 2
			if tier == "thorough" {
				steps, kmax = 5, 3
			}
			var js []JobSpec
			for k0 := 0; k0 <= kmax; k0++ {
				for k1 := 0; k1 <= kmax; k1++ {
					js = append(js, JobSpec{Group: "seqlist", Harness: "VSeqScript", Mode: "seq", Params: map[string]int{"steps": steps, "k0": k0, "k1": k1}})
				}
			}
			return js
		},
	})
	reg(&PropSpec{
		ID: "C14", Level: "other",
		Explanation: seqLevelText + ". C14: every expression tree over From/FromSlice/TakeWhile/DropWhile/Filter/Map/Plus/Join up to depth 2 with leaves of 0..2 symbolic elements, plus the depth-3 trees along the left spine (right operand of every Plus a leaf, leaves of 0..1 elements, Join(Join(..)) excluded) - full depth 3 did not finish within 45 minutes on this machine and is not registered; the thorough command explores the same trees; predicates/mapping/flat-map selector uninterpreted (selector yields nil, one element or a 1-2 element slice); the documented drain loop and ForEach (callback failing at every position) are compared with a reference evaluator over plain slices; source slices compared before/after. Tree shapes are forked, all values and function behaviours are solver variables.",
		Assumptions: append([]string{"a sequence value is consumed by one consumer (no aliasing of one iterator in two places of a tree)", "trees deeper than the bound and leaves longer than 2 are outside the claim"}, commonAssumptions...),
		Jobs: func(tier string) []JobSpec {
			depth := 2
			if tier == "thorough" {
				depth = 3
			}
			var js []JobSpec
			for k0 := 0; k0 < 9; k0++ {
				for k1 := -1; k1 < 9; k1++ {
					if (k0 <= 2) != (k1 == -1) {
						continue // leaves have no child; inner nodes get their first child fixed
					}
					for _, h := range []string{"VSeqDrain", "VSeqForEach"} {
						p := map[string]int{"depth": depth, "maxleaf": 2, "k0": k0}
						if k1 >= 0 {
							p["k1"] = k1
						}
						js = append(js, JobSpec{Group: "traitseq", Harness: h, Mode: "seq", Params: p})
					}
				}
			}
			// depth 3 along the left spine (the right operand of every Plus is a leaf),
			// leaves of 0..1 elements: combinators applied to an iterator that other
			// combinators have already advanced
			for k0 := 3; k0 < 9; k0++ {
				for k1 := 3; k1 < 9; k1++ { // (a leaf as first child is a depth-2 tree: covered above)
					if k0 == 7 && k1 == 7 {
						continue // Join of Join of a depth-1 tree: 52k paths, 80 s; not registered
					}
					for _, h := range []string{"VSeqDrain", "VSeqForEach"} {
						js = append(js, JobSpec{Group: "traitseq", Harness: h, Mode: "seq", Params: map[string]int{"depth": 3, "maxleaf": 1, "spine": 1, "k0": k0, "k1": k1}})
					}
				}
			}
			return js
		},
	})
	reg(&PropSpec{
		ID: "C15", Level: "other",
		Explanation: seqLevelText + ". C15: every expression tree over pair.From/FromSeq/TakeWhile/DropWhile/Filter/Map/Plus/Join up to depth 2 (depth 3 is not registered: it did not finish in the session), drained through the documented loop (Key and Value read at each position) and, one level shallower, through ForEach (failing at every position) and through ToSeq into a plain seq; FromSeq additionally over plain sequences of 0..3 elements with nil/1/2-pair selectors; keys and values are independent symbols, predicates/mappings/selectors are binary uninterpreted functions; reference is a list of pairs.",
		Assumptions: append([]string{"a sequence value is consumed by one consumer", "trees deeper than the bound and FromSeq leaves over more than 2 elements are outside the claim"}, commonAssumptions...),
		Jobs: func(tier string) []JobSpec {
			depth := 2
			if tier == "thorough" {
				depth = 3
			}
			var js []JobSpec
			for k0 := 0; k0 < 9; k0++ {
				for k1 := -1; k1 < 9; k1++ {
					if (k0 <= 2) != (k1 == -1) {
						continue
					}
					for _, h := range []string{"VPairDrain", "VPairForEach", "VPairToSeq"} {
						d := depth
						if h != "VPairDrain" {
							// ForEach multiplies every tree by the failing position and ToSeq by
							// 4^pairs selector outcomes: they run one level shallower
							d = depth - 1
							if k1 > 2 {
								continue
							}
						}
						p := map[string]int{"depth": d, "k0": k0}
						if k1 >= 0 {
							p["k1"] = k1
						}
						js = append(js, JobSpec{Group: "traitpair", Harness: h, Mode: "seq", Params: p})
					}
				}
			}
			js = append(js, JobSpec{Group: "traitpair", Harness: "VPairFromSeq", Mode: "seq"})
			return js
		},
	})
	reg(&PropSpec{
		ID: "C18", Level: "other",
		Explanation: seqLevelText + ". C18: (a) inductive step: one Put/Get/Remove with symbolic key/value and an unconstrained Int63() from every valid skip-list shape with n<=2 nodes of heights 1..3 (thorough: also 3 nodes for Get and Remove under ord.Int), symbolic strictly ascending keys, for three orders (ord.Int, reversed via ord.From, ContraMap); post-state must satisfy the representation invariant (level 0 = reference map in order, level l = sub-chain of nodes of height > l, forward pointers only, length) and answer like the reference map. (b) all histories of <=2 operations from New() through the public API; (c) all Get/Remove histories of 4 operations over the present keys or a fresh key from every shape of 2 nodes. The float comparison float64(Int63())/2^63 < p[level] is replaced by an integer threshold comparison only after the equivalence has been proved by an SMT floating-point query (cvc5) per level.",
		Assumptions: append([]string{"math/rand.Source.Int63 returns any value in [0, 2^63)", "the printed form (fmt) is not examined; its content (level-0 order, forward pointers) is what is asserted", "lists of more than n+1 nodes / pre-state heights above 3 / string keys are outside the claim", "math.Pow/math.Log10 on constants are evaluated natively"}, commonAssumptions...),
		Jobs: func(tier string) []JobSpec {
			nmax, ops := 2, 2
			var js []JobSpec
			for o := 0; o < 3; o++ {
				for n := 0; n <= nmax; n++ {
					for op := 0; op < 3; op++ {
						js = append(js, JobSpec{Group: "skiplist", Harness: "VSkipStep", Mode: "seq", Params: map[string]int{"ord": o, "n": n, "op": op, "maxh": 3}})
					}
				}
				js = append(js, JobSpec{Group: "skiplist", Harness: "VSkipHistory", Mode: "seq", Params: map[string]int{"ord": o, "ops": ops}})
				// Get/Remove histories over the keys of a populated list (no random heights involved)
				for w := 0; w <= nmax; w++ {
					for op0 := 0; op0 < 2; op0++ {
						js = append(js, JobSpec{Group: "skiplist", Harness: "VSkipHistoryFrom", Mode: "seq", Params: map[string]int{"ord": o, "n": nmax, "maxh": 2, "ops": ops + 2, "puts": 0, "which0": w, "op0": op0}})
					}
				}
			}
			if tier == "thorough" {
				// three-node shapes for Get and Remove (Put from three nodes and longer
				// histories did not finish within 50 minutes and are not registered)
				for _, op := range []int{1, 2} {
					js = append(js, JobSpec{Group: "skiplist", Harness: "VSkipStep", Mode: "seq", Params: map[string]int{"ord": 0, "n": 3, "op": op, "maxh": 3}})
				}
			}
			return js
		},
	})
	reg(&PropSpec{
		ID: "C03", Level: "other",
		Explanation: seqLevelText + ". C03: hseq.New/unfold/ForType/ForName/ForNameMaybe/New1..9/FMap/FMap1..9 executed (real code, go/ssa) on a corpus of 7 struct shapes (padding holes, strings/slices/pointers/interfaces/arrays/zero-size and trailing zero-size fields, value embedding to depth 3 at non-zero offsets, pointer embedding, duplicate names and types across depths, hseq tags incl. `,opt` and foreign tags, unexported names, nine distinct field types) and compared entry by entry with hand-written listings whose offsets are unsafe.Offsetof sums through ordinary selectors; FMapN pairing is checked with uninterpreted functions of (position, entry ID). Shapes are a fixed corpus (structure is concrete); reflect is a model backed by go/types + gc/amd64 sizes.",
		Assumptions: append([]string{"reflect reports the compiler's layout and type identity (model: go/types + types.SizesFor(gc, amd64)); replays run against the real reflect", "struct shapes outside the corpus are outside the claim; self-referential pointer embedding makes unfold diverge and is excluded"}, commonAssumptions...),
		Jobs: func(tier string) []JobSpec {
			var js []JobSpec
			for _, h := range []string{"VListFlat", "VListDeep", "VListTag", "VListPtr", "VListDup", "VListDoc", "VListZero", "VListNine", "VListShadow", "VSymList"} {
				js = append(js, JobSpec{Group: "hseq", Harness: h, Mode: "seq"})
			}
			return js
		},
	})
	reg(&PropSpec{
		ID: "C01", Level: "other",
		Explanation: seqLevelText + ". C01: for 6 corpus shapes (padding holes, mixed alignment, strings/slices/pointers/interfaces/arrays/zero-size fields, value embedding to depth 3 at non-zero offsets, tags, unexported names, duplicate names/types across depths, the same Go field name and type in two value-embedded structs told apart by tags) every focusable field gets a Lens and a Reflector derived by name and (where unique) by type, plus ForProduct2..9/ForSpectrum2..9 by type and by name on a nine-type struct; the struct content (between guard words) and the put values are fully symbolic; Get/Put/Gett/Putt are compared leaf by leaf (guards included) with ordinary Go selectors: GetPut, PutGet, PutPut, returned pointer identity. The unsafe pointer arithmetic is interpreted by a byte-offset memory model that flags any access not exactly on one field of the focus type.",
		Assumptions: append([]string{"reflect reports the compiler's layout and type identity (model: go/types + types.SizesFor(gc, amd64)); replays run against the real reflect and the real unsafe arithmetic", "struct shapes outside the corpus and other GOARCH layouts are outside the claim (a layout-symbolic mode is described in DESIGN.md as thorough-tier work)"}, commonAssumptions...),
		Jobs: func(tier string) []JobSpec {
			var js []JobSpec
			for _, t := range []string{"VFlat", "VDeep", "VTag", "VDup", "VTwin", "VZero"} {
				js = append(js, JobSpec{Group: "optics", Harness: "VLens" + t, Mode: "seq"})
			}
			js = append(js, JobSpec{Group: "optics", Harness: "VSymLens", Mode: "seq"})
			for n := 2; n <= 9; n++ {
				for _, k := range []string{"Product", "Spectrum"} {
					for _, m := range []string{"Type", "Name"} {
						js = append(js, JobSpec{Group: "optics", Harness: fmt.Sprintf("VArity%s%d%s", k, n, m), Mode: "seq"})
					}
				}
			}
			return js
		},
	})
	reg(&PropSpec{
		ID: "C02", Level: "other",
		Explanation: seqLevelText + ". C02: ~60 mismatching derivation requests over the corpus shapes (unknown name, absent type, wrong type by name incl. named-vs-underlying, width, pointer-vs-value, interface, slice/array element, second of N, through ForProduct/ForSpectrum/ForShape/BiMapX/NewLens/NewReflector, too few names with and without spare slice capacity, pointer container type parameter, fields behind pointer-embedded structs) must panic at derivation; Reflector Gett/Putt with value, nil, **T, other struct, same-layout twin type, *int arguments must panic and leave the argument (symbolic content) unchanged. Accepted optics are checked by the C01 exact-field oracle. Requests are a fixed list; contents are symbolic.",
		Assumptions: append([]string{"reflect reports the compiler's layout and type identity (model: go/types + types.SizesFor(gc, amd64))", "request shapes outside the listed universe are outside the claim"}, commonAssumptions...),
		Jobs: func(tier string) []JobSpec {
			var js []JobSpec
			for _, h := range []string{"VReject", "VRejectContainer", "VRejectPtrEmbedded", "VPtrEmbeddedNeighbours", "VReflectorArgs"} {
				js = append(js, JobSpec{Group: "optics", Harness: h, Mode: "seq"})
			}
			return js
		},
	})
	reg(&PropSpec{
		ID: "C04", Level: "other",
		Explanation: seqLevelText + ". C04: Join at nesting depth 1..3 (both associations) over nested structs with the lens laws and the leaf-by-leaf 'nothing else changes' oracle of C01; Getter/Setter/BiMap with uninterpreted conversions (mutual inverseness assumed on the occurring values); BiMapS/B/I/F on named types; ForShape2..9 by type and by name (positional Get/Put against component assignments); map lens over three present keys and one absent key; Iso/Morphism over every list of length <= 3 (4 thorough) drawn from {nil, isoA, isoB, isoC} with repeats: Forward, Inverse into a fresh source, Forward;Inverse identity, both structures compared leaf by leaf between guard words. Contents and values are symbolic.",
		Assumptions: append([]string{"maps with symbolic keys and float NaN payload semantics are outside the claim (floats are compared bit-wise)", "reflect model as in C01"}, commonAssumptions...),
		Jobs: func(tier string) []JobSpec {
			maxlen := 3
			if tier == "thorough" {
				maxlen = 4
			}
			var js []JobSpec
			for _, h := range []string{"VJoin", "VGetterSetterBiMap", "VBiMapX", "VLensM"} {
				js = append(js, JobSpec{Group: "optics", Harness: h, Mode: "seq"})
			}
			js = append(js, JobSpec{Group: "optics", Harness: "VIso", Mode: "seq", Params: map[string]int{"maxlen": maxlen}})
			for n := 2; n <= 9; n++ {
				for _, m := range []string{"Type", "Name"} {
					js = append(js, JobSpec{Group: "optics", Harness: fmt.Sprintf("VShape%d%s", n, m), Mode: "seq"})
				}
			}
			return js
		},
	})
	bmcAssumptions := append([]string{
		"the Go channel runtime, select, close, context cancellation, sync.WaitGroup and the scheduler are MODELLED from their documented semantics (buffered FIFO, rendez-vous as a joint step, any ready select arm may fire, default only if no arm is buffer-ready, send/close on closed panics); the claim is 'golem is right if these behave as documented'",
		"every interleaving of the bounded configuration is a value of the symbolic schedule; claims hold for runs of the stated configurations only (input length, capacities, worker counts)",
		"a lexicographic partial-order constraint prunes equivalent interleavings (sound: every Mazurkiewicz trace keeps its minimal linearisation; runs may stop early at any step, so every reachable state is represented)",
	}, commonAssumptions...)
	bmcText := "bounded model checking: goroutines of the real code (go/ssa) are turned into control-flow automata by symbolic execution between visible operations; the product is unrolled K steps into one SMT formula whose schedule, inputs, stage functions (uninterpreted) and failure pattern are solver variables; K is raised until no run of K non-stutter steps exists (completeness threshold), so Final conditions are statements about all complete runs of the configuration. "
	stageJobs := func(hs []string, caps, ns []int, extra map[string]int, k int) []JobSpec {
		var js []JobSpec
		for _, h := range hs {
			for _, c := range caps {
				for _, n := range ns {
					p := map[string]int{"cap": c, "n": n}
					for kk, v := range extra {
						p[kk] = v
					}
					js = append(js, JobSpec{Group: "pipe", Harness: h, Mode: "bmc", Params: p, K: k})
				}
			}
		}
		return js
	}
	reg(&PropSpec{
		ID: "C05", Level: "model_checking",
		Explanation: bmcText + "C05: Map, Filter, Take (symbolic n in 0..N+1), TakeWhile, Partition (two independent consumers), Fold (uninterpreted non-commutative operation, symbolic identity), ForEach, Void, FMap (arrow emitting 0..2 values per input), Seq/ToSeq; producer goroutine (send all, then close) and pre-filled Seq input; input capacity 0..2, input length 0..3 (Partition 0..2, FMap 0..1; thorough: FMap with 2 inputs unbuffered); no cancellation. Consumers assert the j-th received value against the list image; Final asserts counts, closure of every output, exit of all library goroutines.",
		Assumptions: bmcAssumptions,
		Jobs: func(tier string) []JobSpec {
			caps, ns := []int{0, 1, 2}, []int{0, 1, 2, 3}
			hs := []string{"VMapPure", "VFilter", "VTake", "VTakeWhile", "VFold", "VForEach"}
			js := stageJobs(hs, caps, ns, nil, 30)
			js = append(js, stageJobs(hs, []int{0}, ns, map[string]int{"seq": 1}, 30)...)
			js = append(js, stageJobs([]string{"VForEach"}, caps, ns, map[string]int{"void": 1}, 30)...)
			// two consumers / nested sends: one element fewer in the quick tier
			hns := ns[:len(ns)-1]
			js = append(js, stageJobs([]string{"VPartition"}, caps, hns, nil, 40)...)
			js = append(js, stageJobs([]string{"VPartition"}, []int{0}, hns, map[string]int{"seq": 1}, 40)...)
			fns := hns[:len(hns)-1]
			js = append(js, stageJobs([]string{"VFMap"}, caps, fns, nil, 40)...)
			js = append(js, stageJobs([]string{"VFMap"}, []int{0}, hns, map[string]int{"seq": 1}, 40)...)
			if tier == "thorough" { // FMap with two inputs (up to four emitted values), unbuffered
				js = append(js, stageJobs([]string{"VFMap"}, []int{0}, []int{2}, nil, 48)...)
			}
			js = append(js, stageJobs([]string{"VSeqToSeq"}, []int{0}, ns, nil, 12)...)
			return js
		},
	})
	reg(&PropSpec{
		ID: "C06", Level: "model_checking",
		Explanation: bmcText + "C06: every stage (Map, FMap, Filter, ForEach, Void, Fold, Partition, Join, Take, TakeWhile, StdErr, Map with failing Lift/Try, Unfold, Emit, Emit over a failing Try function, Throttling) under a maximally permissive environment: the producer may close the input early at any point, every consumer (values, second output, done channel, errors) may stop receiving for good at any point, cancel may fire at any step or never - coin flips and schedule are solver variables. Checked: no panic in any goroutine; every received value is the next element of the uncancelled result (prefix); at every quiescent state: inputs closed and outputs drained => all returned channels closed and library goroutines gone; cancelled and inputs closed => the same with no assumption on consumers (Throttling's pacer is a permitted daemon until cancel). Generators (Unfold, Emit) and clocked stages are checked for all runs of up to K steps (stated prefix bound); for Emit over Try a bounded-liveness assertion stands in for termination: once cancelled and with both consumers stopped the function is applied at most cap(out)+cap(errors)+1 more times.",
		Assumptions: bmcAssumptions,
		Jobs: func(tier string) []JobSpec {
			caps, ns := []int{0, 1}, []int{1}
			if tier == "thorough" {
				caps, ns = []int{0, 1}, []int{1, 2}
			}
			var js []JobSpec
			for st := 0; st <= 12; st++ {
				for _, c := range caps {
					for _, n := range ns {
						js = append(js, JobSpec{Group: "pipe", Harness: "VLife", Mode: "bmc", Params: map[string]int{"stage": st, "cap": c, "n": n}, K: 40})
					}
				}
			}
			if tier != "thorough" { // two elements, unbuffered, for the cheaper stages
				for _, st := range []int{0, 2, 5, 8, 9} {
					js = append(js, JobSpec{Group: "pipe", Harness: "VLife", Mode: "bmc", Params: map[string]int{"stage": st, "cap": 0, "n": 2}, K: 40})
				}
			}
			for _, c := range caps { // generators: bounded prefix of every run
				k := 24
				if tier == "thorough" {
					k = 36
				}
				js = append(js, JobSpec{Group: "pipe", Harness: "VLife", Mode: "bmc", Params: map[string]int{"stage": 13, "cap": c, "n": 1, "generator": 1}, K: k})
				js = append(js, JobSpec{Group: "pipe", Harness: "VLife", Mode: "bmc", Params: map[string]int{"stage": 14, "cap": c, "n": 1, "generator": 1, "clock": 1}, K: k})
				js = append(js, JobSpec{Group: "pipe", Harness: "VLife", Mode: "bmc", Params: map[string]int{"stage": 15, "cap": c, "n": 1, "generator": 1, "clock": 1}, K: k})
				js = append(js, JobSpec{Group: "pipe", Harness: "VLife", Mode: "bmc", Params: map[string]int{"stage": 16, "cap": c, "n": 1, "generator": 1, "clock": 1}, K: k})
			}
			return js
		},
	})
	reg(&PropSpec{
		ID: "C08", Level: "model_checking",
		Explanation: bmcText + "C08: pipe.New (the pump goroutine, newq/enq/deq/head/emit): sender of n symbolic values (optionally closing the send side), receiver present or absent, cancel at any step; queue nodes and the per-receive cells live in bounded arenas (symbolic slot indices). Checked: FIFO / exactly-once (j-th received value is x_j), nothing invented, the sender always gets all n sends through while the context is live (also with no receiver), after cancel every send completed before the cancel is delivered and the receive side closes, closing the send side is a clean end of stream (no panic). Bounds: capacity 0..2, n 1..2 (capacity>=1 with n=2, cancel and a receiver only in the thorough tier: minutes per job); plus bursts of 2 (thorough: also 3) buffered sends completed before the pump first runs (capacity 2 / 3), cancel at any step, with a receiver.",
		Assumptions: append([]string{"sync.Pool: in two configurations (pool=1) Get returns either a fresh node or ANY node Put before, chosen by the solver, with its stale contents; in the other configurations it is modelled as always fresh", "sends attempted after cancel are outside the statement (they may fail: the pump closes the send side)"}, bmcAssumptions...),
		Jobs: func(tier string) []JobSpec {
			ns := []int{1, 2}
			var js []JobSpec
			for _, c := range []int{0, 1, 2} {
				for _, n := range ns {
					for _, mode := range []int{0, 1} {
						for _, rc := range []int{0, 1} {
							if tier != "thorough" && c >= 1 && n >= 2 && mode == 0 && rc == 1 {
								continue // minutes each: thorough tier
							}
							js = append(js, JobSpec{Group: "pipe", Harness: "VUnbound", Mode: "bmc", Params: map[string]int{"cap": c, "n": n, "mode": mode, "recv": rc}, K: 40})
						}
					}
				}
			}
			// bursts: the sends have completed (buffered) before the pump runs at all
			if tier == "thorough" { // 3 minutes
				js = append(js, JobSpec{Group: "pipe", Harness: "VUnbound", Mode: "bmc", Params: map[string]int{"cap": 3, "n": 3, "mode": 0, "recv": 1, "burst": 1}, K: 40})
			}
			js = append(js, JobSpec{Group: "pipe", Harness: "VUnbound", Mode: "bmc", Params: map[string]int{"cap": 2, "n": 2, "mode": 0, "recv": 1, "burst": 1}, K: 40})
			// one configuration under the lax virtual clock (timers, if any, may fire at any time)
			js = append(js, JobSpec{Group: "pipe", Harness: "VUnbound", Mode: "bmc", Params: map[string]int{"cap": 0, "n": 2, "mode": 0, "recv": 1, "clock": 1}, K: 24})
			// sync.Pool reuse: Get may return any node Put before (stale contents included)
			js = append(js, JobSpec{Group: "pipe", Harness: "VUnbound", Mode: "bmc", Params: map[string]int{"cap": 0, "n": 2, "mode": 0, "recv": 1, "pool": 1}, K: 40})
			js = append(js, JobSpec{Group: "pipe", Harness: "VUnbound", Mode: "bmc", Params: map[string]int{"cap": 0, "n": 2, "mode": 1, "recv": 1, "pool": 1}, K: 40})
			// the linked queue itself, as an inductive step from every valid shape with an arbitrary recycled node
			for k := 0; k <= 3; k++ {
				for op := 0; op < 2; op++ {
					js = append(js, JobSpec{Group: "pipe", Harness: "VQueueStep", Mode: "seq", Params: map[string]int{"k": k, "op": op}})
				}
			}
			return js
		},
	})
	reg(&PropSpec{
		ID: "C11", Level: "model_checking",
		Explanation: bmcText + "C11: Unfold (j-th value == F^j(seed), F uninterpreted, consumer may stop, cancel at any step) and Emit (j-th value == F(i_j) for the j-th non-failing index under Try, errors in order, index sequence 0,1,2,..; under the LAX virtual clock - tick of any positive size at any step, so goroutines and timers may be arbitrarily late - F is applied at most once per elapsed frequency tick and the j-th value is never received before (j+1) ticks; under the URGENT clock an always-ready consumer receives the j-th value at exactly (j+1) ticks); after cancel both channels close and the goroutine exits. Generators: all runs of up to K steps (Unfold 24 / 36 thorough; Emit under the lax clock 14 / 24 thorough, i.e. the first two to four values), capacities 0..2, frequency 5 (and 1 thorough).",
		Assumptions: append([]string{"time.Sleep / time.After never fire early (virtual clock); real-time behaviour of a loaded machine is outside the claim", "runs longer than K steps are outside the claim (generators never terminate)"}, bmcAssumptions...),
		Jobs: func(tier string) []JobSpec {
			k, ke := 24, 14 // Emit under the lax clock is the expensive query
			freqs := []int{5}
			if tier == "thorough" {
				k, ke = 36, 18
				freqs = []int{5}
			}
			var js []JobSpec
			for _, c := range []int{0, 1, 2} {
				js = append(js, JobSpec{Group: "pipe", Harness: "VUnfold", Mode: "bmc", Params: map[string]int{"cap": c, "generator": 1}, K: k})
				for _, fq := range freqs {
					for _, try := range []int{0, 1} {
						js = append(js, JobSpec{Group: "pipe", Harness: "VEmit", Mode: "bmc", Params: map[string]int{"cap": c, "freq": fq, "try": try, "generator": 1, "clock": 1}, K: ke})
					}
					js = append(js, JobSpec{Group: "pipe", Harness: "VEmitKeepsUp", Mode: "bmc", Params: map[string]int{"cap": c, "freq": fq, "generator": 1, "clock": 2}, K: k})
				}
			}
			// a long period (200 ms in nanoseconds): pacing code that treats long and short
			// periods differently
			js = append(js, JobSpec{Group: "pipe", Harness: "VEmitKeepsUp", Mode: "bmc", Params: map[string]int{"cap": 0, "freq": 200000000, "generator": 1, "clock": 2}, K: k})
			return js
		},
	})
	reg(&PropSpec{
		ID: "C13", Level: "model_checking",
		Explanation: bmcText + "C13: Throttling's pacer and data goroutines under the URGENT virtual clock (time advances only when no goroutine can move, and then exactly to the earliest pending timer - the rule of testing/synctest), pre-filled input, always-ready consumer: every element is delivered once, in order, the output closes, and element i is delivered no earlier than floor(i/ops)*interval and no later than one interval after that. Bounds: ops=1 n=3 (quick); ops in {1,2}, n up to 4 (thorough). NOT decided: the burst bound '2*ops+1+c deliveries per window' under arbitrary arrival patterns and late goroutines (lax clock): the harness exists (VThrottleRate) but its unsat query did not finish within 15 minutes for ops=1, c=0, n=4, so that sub-claim is outside what this check establishes.",
		Assumptions: append([]string{"time.After never fires early (virtual clock); real-time behaviour of a loaded machine is outside the claim", "the per-window burst bound under idle-then-burst arrival patterns is NOT covered (query too hard for the available solvers within the time budget)"}, bmcAssumptions...),
		Jobs: func(tier string) []JobSpec {
			js := []JobSpec{
				{Group: "pipe", Harness: "VThrottlePace", Mode: "bmc", Params: map[string]int{"ops": 1, "n": 3, "interval": 10, "clock": 2}, K: 40},
				{Group: "pipe", Harness: "VThrottlePace", Mode: "bmc", Params: map[string]int{"ops": 1, "n": 2, "interval": 7, "clock": 2}, K: 40},
				{Group: "pipe", Harness: "VThrottlePace", Mode: "bmc", Params: map[string]int{"ops": 2, "n": 3, "interval": 5, "clock": 2}, K: 40},
				// (two full rounds of two tokens: a lost token shows as lateness only in the second round)
				{Group: "pipe", Harness: "VThrottlePace", Mode: "bmc", Params: map[string]int{"ops": 2, "n": 4, "interval": 10, "clock": 2}, K: 48},
			}
			if tier == "thorough" {
				js = append(js,
					JobSpec{Group: "pipe", Harness: "VThrottlePace", Mode: "bmc", Params: map[string]int{"ops": 1, "n": 4, "interval": 10, "clock": 2}, K: 48},
				)
			}
			return js
		},
	})
	// experimental, NOT registered in MANIFEST: the Throttling burst bound under the lax clock
	reg(&PropSpec{
		ID: "X13", Level: "model_checking", Explanation: "experimental: Throttling burst bound (see DESIGN.md 17)", Assumptions: bmcAssumptions,
		Jobs: func(tier string) []JobSpec {
			return []JobSpec{{Group: "pipe", Harness: "VThrottleRate", Mode: "bmc", Params: map[string]int{"ops": 1, "cap": 0, "n": 4, "interval": 10, "clock": 1}, K: 40, Timeout: 1800000},
				{Group: "pipe", Harness: "VThrottleBurst", Mode: "bmc", Params: map[string]int{"ops": 1, "cap": 0, "n": 4, "interval": 10, "clock": 2}, K: 48, Timeout: 1800000},
				{Group: "pipe", Harness: "VThrottleBurst", Mode: "bmc", Params: map[string]int{"ops": 1, "cap": 2, "n": 6, "interval": 10, "clock": 2}, K: 64, Timeout: 1800000}}
		},
	})
}
