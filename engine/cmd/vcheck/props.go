package main

import "fmt"

var props = map[string]*PropSpec{}

func reg(p *PropSpec) { props[p.ID] = p }

const seqLevelText = "bounded symbolic execution of the real code's go/ssa form; every assertion is discharged by an SMT query over all values on that path (unsat = holds for every input within the stated bounds)"

var commonAssumptions = []string{
	"go/ssa (x/tools v0.50.0, generics instantiated) is a faithful lowering of the Go source; the interpreter's semantics of the ~35 SSA instruction kinds is validated by native replay of counterexamples",
	"integers are fixed-width bit-vectors with Go's wrap-around semantics; user-supplied functions are uninterpreted functions",
	"solver answers (z3 5.1 primary) are trusted; any error/unknown/timeout makes the check inconclusive (exit 2), never a pass",
}

func init() {
	reg(&PropSpec{
		ID: "C20", Level: "other",
		Explanation: seqLevelText + ". C20: for N=2..20 PipeN is applied to N distinct uninterpreted functions and a symbolic argument; result term must equal f_N(...f_1(a)) and every ghost call counter must be exactly 1 per application. Bound: N<=20 (the whole API); nothing else is bounded.",
		Assumptions: commonAssumptions,
		Jobs: func(tier string) []JobSpec {
			var js []JobSpec
			for n := 2; n <= 20; n++ {
				js = append(js, JobSpec{Group: "internalpipe", Harness: fmt.Sprintf("VPipe%d", n), Mode: "seq"})
			}
			return js
		},
	})
}
