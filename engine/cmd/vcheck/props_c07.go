package main

// C07: fail-fast and try-and-continue behave as documented for every fault.

func init() {
	c07Assumptions := append([]string{
		"the Go channel runtime, select, close, context cancellation and the scheduler are MODELLED from their documented semantics (buffered FIFO, rendez-vous as a joint step, any ready select arm may fire, default only if no arm is buffer-ready, send/close on closed panics); the claim is 'golem is right if these behave as documented'",
		"every interleaving of the bounded configuration is a value of the symbolic schedule; claims hold for runs of the stated configurations only (input length, capacities)",
		"a lexicographic partial-order constraint prunes equivalent interleavings (sound: every Mazurkiewicz trace keeps its minimal linearisation; runs may stop early at any step, so every reachable state is represented)",
		"the failure pattern is an uninterpreted predicate E over element values (two positions holding the same value fail alike, as a deterministic stage function would); the error of x is the value verr{x}; the stage function decides failure before emitting anything (partial output of a failing arrow is outside the statement)",
		"both the value channel and the error channel are read to the end by independent consumers (the statement's proviso); a producer left blocked on its send after a fail-fast stage has aborted is outside the statement; the context is never cancelled",
		"Unfold is checked with the fail-fast adapter only, Emit with the fail-fast adapter only (generators forced to fail within 3 steps so that runs are finite); Emit's time.Sleep runs on the lax virtual clock",
	}, commonAssumptions...)
	c07Text := "bounded model checking: goroutines of the real code (go/ssa) are turned into control-flow automata by symbolic execution between visible operations; the product is unrolled K steps into one SMT formula whose schedule, inputs, stage function (uninterpreted F) and failure pattern (uninterpreted predicate E: every subset of failing positions in one query) are solver variables; K is raised until no run of K non-stutter steps exists (completeness threshold), so Final conditions are statements about all complete runs of the configuration. "
	reg(&PropSpec{
		ID: "C07", Level: "model_checking",
		Explanation: c07Text + "C07: Map x {Lift, Try} and FMap x {LiftF, TryF} fed by a producer goroutine (send all, close) or a pre-filled Seq, input capacity 0..2, length 0..3 (4 thorough); the fail-fast stages also with a producer that never closes the input (n 1..3, some element failing: the stage must close at the failure, not when the input ends); Unfold(Lift) with capacity 0..2 (3 thorough, generator failing within 3 steps); Emit(Lift) on the lax virtual clock with capacity 0..2 and the function failing within the first 3 indices (thorough: within 4, capacity 3 within 3). Two independent consumers (values, errors). Fail-fast: j-th value == F(x_j) with j below the first failing index m, exactly one error == verr{x_m}, Invariant calls <= m+1 (nothing processed further), closed(exx) implies the error is delivered or buffered, Final: counts, both channels closed, stage goroutine exited. Try: g-th value is F of the g-th non-failing element, g-th error is verr of the g-th failing element, Final: both counts complete, function applied exactly n times in input order, both channels closed, all goroutines (producer included) exited.",
		Assumptions: c07Assumptions,
		Jobs:        c07Jobs,
	})
}

func c07Jobs(tier string) []JobSpec {
	thorough := tier == "thorough"
	caps, ns := []int{0, 1, 2}, []int{0, 1, 2, 3}
	if thorough {
		ns = []int{0, 1, 2, 3, 4}
	}
	var js []JobSpec
	add := func(h string, k int, p map[string]int) {
		js = append(js, JobSpec{Group: "pipe", Harness: h, Mode: "bmc", Params: p, K: k})
	}
	// (first job of each harness = the one the native self-test runs)
	for _, h := range []string{"VFailFast", "VTry"} {
		for stage := 0; stage <= 1; stage++ {
			for i := len(ns) - 1; i >= 0; i-- {
				n := ns[i]
				for _, c := range caps {
					if n == 4 && c == 2 {
						continue
					}
					add(h, 48, map[string]int{"stage": stage, "cap": c, "n": n})
				}
				add(h, 48, map[string]int{"stage": stage, "seq": 1, "n": n})
			}
		}
	}
	// fail-fast with an input that is never closed
	for stage := 0; stage <= 1; stage++ {
		for _, nc := range [][2]int{{1, 0}, {2, 0}, {2, 1}, {3, 0}} {
			add("VFailFastOpen", 48, map[string]int{"stage": stage, "n": nc[0], "cap": nc[1]})
		}
	}
	ucaps := []int{0, 1, 2}
	if thorough {
		ucaps = []int{0, 1, 2, 3}
	}
	for _, c := range ucaps {
		add("VUnfoldFailFast", 40, map[string]int{"cap": c})
	}
	// Emit on the lax clock (cheap since clock ticks are merged into steps; before
	// that cap=1/within=2 took 300 s)
	emit := [][2]int{{0, 3}, {1, 3}, {2, 3}}
	if thorough {
		emit = [][2]int{{0, 4}, {1, 4}, {2, 4}, {3, 3}}
	}
	for _, e := range emit {
		add("VEmitFailFast", 48, map[string]int{"cap": e[0], "clock": 1, "within": e[1]})
	}
	return js
}
