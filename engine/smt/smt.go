// Package smt drives long-lived SMT solver processes over pipes.
package smt

import (
	"bufio"
	"fmt"
	"io"
	"math"
	"os"
	"os/exec"
	"strconv"
	"strings"
	"time"

	"verif.local/engine/term"
)

type Result int

const (
	Unsat Result = iota
	Sat
	Unknown
)

func (r Result) String() string { return [...]string{"unsat", "sat", "unknown"}[r] }

type Stats struct {
	Queries  int
	Sat      int
	Unsat    int
	Unknown  int
	Errors   int
	Seconds  float64
	MaxQuery float64
}

type Solver struct {
	Kind     string
	f        *term.Factory
	cmd      *exec.Cmd
	in       *bufio.Writer
	out      *bufio.Reader
	defined  map[int]bool
	declared map[string]bool
	mark     int
	depth    int
	Stats    Stats
	LastErr  string
	Log      io.Writer
	timeout  int
	dead     bool
}

// Path of the solver binaries.
var Binaries = map[string][]string{
	"z3new": {"z3-new", "-in"},
	"z3":    {"z3", "-in"},
	"cvc5":  {"cvc5", "--incremental", "--lang=smt2", "--produce-models"},
}

func New(kind string, f *term.Factory, timeoutMs int) (*Solver, error) {
	args := append([]string{}, Binaries[kind]...)
	if len(args) == 0 {
		return nil, fmt.Errorf("unknown solver %q", kind)
	}
	if kind == "cvc5" && timeoutMs > 0 {
		args = append(args, fmt.Sprintf("--tlimit-per=%d", timeoutMs))
	}
	cmd := exec.Command(args[0], args[1:]...)
	stdin, err := cmd.StdinPipe()
	if err != nil {
		return nil, err
	}
	stdout, err := cmd.StdoutPipe()
	if err != nil {
		return nil, err
	}
	cmd.Stderr = cmd.Stdout
	if err := cmd.Start(); err != nil {
		return nil, err
	}
	s := &Solver{Kind: kind, f: f, cmd: cmd, in: bufio.NewWriterSize(stdin, 1<<20), out: bufio.NewReaderSize(stdout, 1<<20),
		defined: map[int]bool{}, declared: map[string]bool{}, timeout: timeoutMs}
	if p := os.Getenv("VERIF_SMTLOG"); p != "" {
		lf, _ := os.OpenFile(fmt.Sprintf("%s.%s.%d.smt2", p, kind, cmd.Process.Pid), os.O_CREATE|os.O_WRONLY|os.O_TRUNC, 0o644)
		s.Log = lf
	}
	s.send("(set-option :global-declarations true)")
	s.send("(set-option :produce-models true)")
	if kind != "cvc5" && timeoutMs > 0 {
		s.send(fmt.Sprintf("(set-option :timeout %d)", timeoutMs))
	}
	s.send("(set-logic ALL)")
	return s, nil
}

func (s *Solver) Close() {
	if s == nil || s.cmd == nil {
		return
	}
	s.in.WriteString("(exit)\n")
	s.in.Flush()
	done := make(chan struct{})
	go func() { s.cmd.Wait(); close(done) }()
	select {
	case <-done:
	case <-time.After(500 * time.Millisecond):
		s.cmd.Process.Kill()
		<-done
	}
	s.cmd = nil
}

func (s *Solver) send(line string) {
	if s.Log != nil {
		fmt.Fprintln(s.Log, line)
	}
	s.in.WriteString(line)
	s.in.WriteByte('\n')
}

// ref returns the text naming t, emitting definitions as needed.
func (s *Solver) ref(t *term.T) string {
	switch t.Op {
	case term.OConst:
		return s.f.Head(t, nil)
	case term.OVar:
		if !s.declared[t.Name] {
			s.declared[t.Name] = true
			s.send(fmt.Sprintf("(declare-const |%s| %s)", t.Name, t.S.SMT()))
		}
		return "|" + t.Name + "|"
	}
	if s.defined[t.ID] {
		return "n" + strconv.Itoa(t.ID)
	}
	// iterative post-order to avoid deep recursion
	type fr struct {
		t *term.T
		i int
	}
	stack := []fr{{t, 0}}
	for len(stack) > 0 {
		top := &stack[len(stack)-1]
		if top.i < len(top.t.A) {
			a := top.t.A[top.i]
			top.i++
			if a.Op != term.OConst && a.Op != term.OVar && !s.defined[a.ID] {
				stack = append(stack, fr{a, 0})
			} else if a.Op == term.OVar {
				s.ref(a)
			}
			continue
		}
		x := top.t
		stack = stack[:len(stack)-1]
		if s.defined[x.ID] {
			continue
		}
		if x.Op == term.OApp {
			if !s.declared["uf:"+x.Name] {
				s.declared["uf:"+x.Name] = true
				d := s.f.UFs[x.Name]
				var as []string
				for _, a := range d.Args {
					as = append(as, a.SMT())
				}
				s.send(fmt.Sprintf("(declare-fun |%s| (%s) %s)", d.Name, strings.Join(as, " "), d.Res.SMT()))
			}
		}
		head := s.f.Head(x, func(a *term.T) string {
			switch a.Op {
			case term.OConst:
				return s.f.Head(a, nil)
			case term.OVar:
				return "|" + a.Name + "|"
			}
			return "n" + strconv.Itoa(a.ID)
		})
		s.send(fmt.Sprintf("(define-fun n%d () %s %s)", x.ID, x.S.SMT(), head))
		s.defined[x.ID] = true
	}
	return "n" + strconv.Itoa(t.ID)
}

func (s *Solver) Push() { s.send("(push 1)"); s.depth++ }
func (s *Solver) Pop()  { s.send("(pop 1)"); s.depth-- }

func (s *Solver) Assert(t *term.T) {
	if t.IsTrue() {
		return
	}
	r := s.ref(t)
	s.send("(assert " + r + ")")
}

// sync flushes and consumes output up to a marker; reports any error lines.
func (s *Solver) sync() (string, error) {
	s.mark++
	m := fmt.Sprintf("MARK%d", s.mark)
	s.send(fmt.Sprintf("(echo \"%s\")", m))
	if err := s.in.Flush(); err != nil {
		s.dead = true
		return "", err
	}
	var sb strings.Builder
	for {
		line, err := s.out.ReadString('\n')
		if err != nil {
			s.dead = true
			return sb.String(), fmt.Errorf("solver %s died: %v (%s)", s.Kind, err, sb.String())
		}
		tl := strings.TrimSpace(line)
		if tl == m || tl == "\""+m+"\"" {
			break
		}
		sb.WriteString(line)
	}
	out := sb.String()
	if strings.Contains(out, "(error") || strings.Contains(out, "rror:") {
		s.Stats.Errors++
		s.LastErr = out
		return out, fmt.Errorf("solver %s error: %s", s.Kind, strings.TrimSpace(out))
	}
	return out, nil
}

// Check runs check-sat in the current scope.
func (s *Solver) Check() (Result, error) {
	if s.dead {
		return Unknown, fmt.Errorf("solver %s is dead", s.Kind)
	}
	t0 := time.Now()
	s.send("(check-sat)")
	out, err := s.sync()
	dt := time.Since(t0).Seconds()
	s.Stats.Queries++
	s.Stats.Seconds += dt
	if dt > s.Stats.MaxQuery {
		s.Stats.MaxQuery = dt
	}
	if err != nil {
		s.Stats.Unknown++
		return Unknown, err
	}
	// anything printed before the verdict (errors are caught above) is ignored
	lines := strings.Split(strings.TrimSpace(out), "\n")
	switch strings.TrimSpace(lines[len(lines)-1]) {
	case "sat":
		s.Stats.Sat++
		return Sat, nil
	case "unsat":
		s.Stats.Unsat++
		return Unsat, nil
	}
	s.Stats.Unknown++
	return Unknown, nil
}

// CheckWith checks the current scope plus extra assertions, leaving the scope unchanged.
// If keepOnSat is true and the result is Sat the scope is left pushed so that
// Values can be called; the caller must Pop.
func (s *Solver) CheckWith(keepOnSat bool, extra ...*term.T) (Result, error) {
	s.Push()
	for _, e := range extra {
		s.Assert(e)
	}
	r, err := s.Check()
	if !(keepOnSat && r == Sat) {
		s.Pop()
	}
	return r, err
}

// Values returns the model values of the given terms (after a Sat).
func (s *Solver) Values(ts []*term.T) (map[*term.T]*term.T, error) {
	res := map[*term.T]*term.T{}
	const chunk = 200
	for i := 0; i < len(ts); i += chunk {
		j := i + chunk
		if j > len(ts) {
			j = len(ts)
		}
		var refs []string
		for _, t := range ts[i:j] {
			refs = append(refs, s.ref(t))
		}
		if _, err := s.sync(); err != nil {
			return nil, err
		}
		s.send("(get-value (" + strings.Join(refs, " ") + "))")
		out, err := s.sync()
		if err != nil {
			return nil, err
		}
		sx, err := ParseSexp(out)
		if err != nil {
			return nil, fmt.Errorf("parse get-value: %v in %q", err, out)
		}
		if len(sx.L) != j-i {
			return nil, fmt.Errorf("get-value returned %d values, want %d: %q", len(sx.L), j-i, out)
		}
		for k, t := range ts[i:j] {
			pair := sx.L[k]
			if len(pair.L) != 2 {
				return nil, fmt.Errorf("bad get-value pair %q", out)
			}
			v, err := s.parseVal(pair.L[1], t.S)
			if err != nil {
				return nil, err
			}
			res[t] = v
		}
	}
	return res, nil
}

func (s *Solver) parseVal(x *Sexp, so term.Sort) (*term.T, error) {
	f := s.f
	switch so.K {
	case term.KBool:
		switch x.A {
		case "true":
			return f.True(), nil
		case "false":
			return f.False(), nil
		}
	case term.KBV:
		if strings.HasPrefix(x.A, "#x") {
			v, err := strconv.ParseUint(x.A[2:], 16, 64)
			return f.BVC(so.W, v), err
		}
		if strings.HasPrefix(x.A, "#b") {
			v, err := strconv.ParseUint(x.A[2:], 2, 64)
			return f.BVC(so.W, v), err
		}
		if len(x.L) == 3 && x.L[0].A == "_" && strings.HasPrefix(x.L[1].A, "bv") {
			v, err := strconv.ParseUint(x.L[1].A[2:], 10, 64)
			return f.BVC(so.W, v), err
		}
	case term.KInt:
		if x.A != "" {
			v, err := strconv.ParseInt(x.A, 10, 64)
			return f.IntC(v), err
		}
		if len(x.L) == 2 && x.L[0].A == "-" {
			v, err := strconv.ParseInt(x.L[1].A, 10, 64)
			return f.IntC(-v), err
		}
	case term.KF64, term.KF32:
		eb, mb := 11, 52
		if so.K == term.KF32 {
			eb, mb = 8, 23
		}
		mk := func(bits uint64) *term.T {
			if so.K == term.KF32 {
				return f.F32C(float64(math.Float32frombits(uint32(bits))))
			}
			return f.F64C(math.Float64frombits(bits))
		}
		if len(x.L) == 4 && x.L[0].A == "fp" {
			pb := func(a string) uint64 {
				if strings.HasPrefix(a, "#b") {
					v, _ := strconv.ParseUint(a[2:], 2, 64)
					return v
				}
				v, _ := strconv.ParseUint(a[2:], 16, 64)
				return v
			}
			return mk(pb(x.L[1].A)<<uint(eb+mb) | pb(x.L[2].A)<<uint(mb) | pb(x.L[3].A)), nil
		}
		if len(x.L) == 4 && x.L[0].A == "_" {
			switch x.L[1].A {
			case "+zero":
				return mk(0), nil
			case "-zero":
				return mk(1 << uint(eb+mb)), nil
			case "+oo":
				return mk(((1 << uint(eb)) - 1) << uint(mb)), nil
			case "-oo":
				return mk(1<<uint(eb+mb) | ((1<<uint(eb))-1)<<uint(mb)), nil
			case "NaN":
				return mk(((1<<uint(eb))-1)<<uint(mb) | 1), nil
			}
		}
	}
	return nil, fmt.Errorf("cannot parse model value %s for sort %s", x.String(), so.SMT())
}

// ---- s-expressions

type Sexp struct {
	A string
	L []*Sexp
	isList bool
}

func (x *Sexp) String() string {
	if !x.isList {
		return x.A
	}
	var ps []string
	for _, e := range x.L {
		ps = append(ps, e.String())
	}
	return "(" + strings.Join(ps, " ") + ")"
}

func ParseSexp(s string) (*Sexp, error) {
	pos := 0
	var parse func() (*Sexp, error)
	skip := func() {
		for pos < len(s) && (s[pos] == ' ' || s[pos] == '\n' || s[pos] == '\t' || s[pos] == '\r') {
			pos++
		}
	}
	parse = func() (*Sexp, error) {
		skip()
		if pos >= len(s) {
			return nil, fmt.Errorf("unexpected end")
		}
		if s[pos] == '(' {
			pos++
			x := &Sexp{isList: true}
			for {
				skip()
				if pos >= len(s) {
					return nil, fmt.Errorf("unterminated list")
				}
				if s[pos] == ')' {
					pos++
					return x, nil
				}
				e, err := parse()
				if err != nil {
					return nil, err
				}
				x.L = append(x.L, e)
			}
		}
		st := pos
		if s[pos] == '|' {
			pos++
			for pos < len(s) && s[pos] != '|' {
				pos++
			}
			pos++
			return &Sexp{A: s[st:pos]}, nil
		}
		if s[pos] == '"' {
			pos++
			for pos < len(s) && s[pos] != '"' {
				pos++
			}
			pos++
			return &Sexp{A: s[st:pos]}, nil
		}
		for pos < len(s) && !strings.ContainsRune(" \n\t\r()", rune(s[pos])) {
			pos++
		}
		return &Sexp{A: s[st:pos]}, nil
	}
	return parse()
}
