package interp

import (
	"fmt"
	"go/types"
	"sort"
	"strings"

	"golang.org/x/tools/go/ssa"

	"verif.local/engine/term"
)

// Value is one of:
//
//	*term.T   (bool, integer bit-vectors, floats)
//	string    (concrete Go string)
//	*SymStr   (bounded symbolic string)
//	*StructV, *ArrayV, TupleV
//	*PtrV, *AddrV, *SliceV, *MapV, *ChanV, *FuncV, *IfaceV, *RTypeV, *ModelV
type Value interface{}

// Object is a mutable heap cell.
type Object struct {
	ID   int
	T    types.Type
	Val  Value
	Name string
	// BMC: objects created during set-up have Setup=true.
	Setup bool
	// Ghost objects belong to harness code (never race-checked).
	Ghost bool
	// Frozen objects are copies of goroutine-local cells captured by a spawned
	// goroutine (BMC): read-only.
	Frozen bool
	// Snap: canonical snapshot of a goroutine-local cell live across a visible operation (BMC).
	Snap bool
}

type StructV struct{ F []Value }
type ArrayV struct{ E []Value }
type TupleV []Value

// PtrV is a typed pointer: object plus a path of field/element indices.
type PtrV struct {
	Obj  *Object
	Path []int
	// Arena pointer (BMC): Obj==nil, Arena!=nil, Idx is a symbolic slot index (-1 = nil).
	Arena *Arena
	Idx   *term.T
	Sub   []int // path inside the arena slot
	// Symbolic element pointer: designates Obj at Path+[Base+k]+Suffix where
	// k = SymIdx (already known to be in [0, SymN)).
	SymIdx *term.T
	SymN   int
	Base   int
	Suffix []int
}

func (p *PtrV) IsNil() bool { return p.Obj == nil && p.Arena == nil }

// AddrV is the integer image of a pointer (unsafe.Pointer -> uintptr).
type AddrV struct {
	Obj  *Object
	Path []int   // path of the original pointer
	Off  int64   // byte offset added to it
	Sym  *term.T // symbolic byte offset added to it (layout-symbolic mode)
	Nil  bool
}

type SliceV struct {
	Obj           *Object // object holding an *ArrayV; nil for the nil slice
	Off, Len, Cap int
	ElemT         types.Type
}

type MapObj struct {
	ID   int
	Keys []string
	K    map[string]Value
	V    map[string]Value
}

type MapV struct{ M *MapObj } // M==nil: nil map

type ChanV struct {
	C *Chan // nil: nil channel
}

type FuncV struct {
	Fn      *ssa.Function
	Free    []Value
	Builtin string // model closure (e.g. cancel function)
	Data    Value
}

// IfaceV is an interface value. Dyn==nil && Tag==nil: nil interface.
// Tag!=nil: symbolic (BMC) interface reconstructed from state variables.
type IfaceV struct {
	Dyn types.Type
	V   Value
	Tag *term.T // Int: 0 = nil, k = dynamic type table index
	Pay *term.T // BV64 payload
}

// RTypeV is the payload of a reflect.Type interface value.
type RTypeV struct{ T types.Type }

// ModelV is an opaque modelled object (context, etc.).
type ModelV struct {
	Kind string
	Ch   *Chan
	Data map[string]Value
}

// SymStr is a bounded symbolic string: Len (BV64) and Max byte terms (BV8);
// bytes at positions >= Len are constrained to zero on creation.
type SymStr struct {
	Len   *term.T
	Bytes []*term.T
}

// Chan is a channel of the modelled runtime.
type Chan struct {
	ID     int
	Cap    int
	ElemT  types.Type
	Name   string
	Buf    []Value // SEQ mode contents
	Closed bool    // SEQ mode
	IsCtx  bool
}

// Arena is a bounded pool of objects of one type allocated by running goroutines (BMC).
type Arena struct {
	Name   string
	T      types.Type
	Slots  []*Object
	Fn     string    // only Alloc sites in functions whose name contains this allocate here
	Next   *term.T   // allocation counter (state variable)
	Pooled []*term.T // per slot: sits in a sync.Pool (only with job parameter pool=1, for pointer-free reuse modelling)
}

type Unsupported struct{ Msg string }

func unsupported(format string, a ...interface{}) {
	panic(Unsupported{fmt.Sprintf(format, a...)})
}

// ---- type helpers

func under(t types.Type) types.Type { return t.Underlying() }

func intBits(t types.Type) (bits int, signed bool, ok bool) {
	b, isb := under(t).(*types.Basic)
	if !isb {
		return 0, false, false
	}
	switch b.Kind() {
	case types.Int, types.Int64:
		return 64, true, true
	case types.Int8:
		return 8, true, true
	case types.Int16:
		return 16, true, true
	case types.Int32:
		return 32, true, true
	case types.Uint, types.Uint64, types.Uintptr:
		return 64, false, true
	case types.Uint8:
		return 8, false, true
	case types.Uint16:
		return 16, false, true
	case types.Uint32:
		return 32, false, true
	case types.UntypedInt, types.UntypedRune:
		return 64, true, true
	}
	return 0, false, false
}

func isFloat(t types.Type) (term.Sort, bool) {
	b, isb := under(t).(*types.Basic)
	if !isb {
		return term.Sort{}, false
	}
	switch b.Kind() {
	case types.Float64, types.UntypedFloat:
		return term.F64, true
	case types.Float32:
		return term.F32, true
	}
	return term.Sort{}, false
}

func isString(t types.Type) bool {
	b, ok := under(t).(*types.Basic)
	return ok && b.Info()&types.IsString != 0
}

func isBool(t types.Type) bool {
	b, ok := under(t).(*types.Basic)
	return ok && b.Info()&types.IsBoolean != 0
}

func isIface(t types.Type) bool {
	_, ok := under(t).(*types.Interface)
	return ok
}

// ---- zero values

func (m *Machine) zero(t types.Type) Value {
	f := m.F
	switch u := under(t).(type) {
	case *types.Basic:
		if bits, _, ok := intBits(t); ok {
			return f.BVC(bits, 0)
		}
		if s, ok := isFloat(t); ok {
			if s.K == term.KF32 {
				return f.F32C(0)
			}
			return f.F64C(0)
		}
		if isBool(t) {
			return f.False()
		}
		if isString(t) {
			return ""
		}
		if u.Kind() == types.UnsafePointer {
			return &PtrV{}
		}
		if u.Kind() == types.Complex128 || u.Kind() == types.Complex64 {
			return &StructV{F: []Value{f.F64C(0), f.F64C(0)}}
		}
		if u.Kind() == types.UntypedNil {
			return nil
		}
	case *types.Struct:
		s := &StructV{F: make([]Value, u.NumFields())}
		for i := range s.F {
			s.F[i] = m.zero(u.Field(i).Type())
		}
		return s
	case *types.Array:
		a := &ArrayV{E: make([]Value, int(u.Len()))}
		for i := range a.E {
			a.E[i] = m.zero(u.Elem())
		}
		return a
	case *types.Pointer:
		return &PtrV{}
	case *types.Slice:
		return &SliceV{ElemT: u.Elem()}
	case *types.Map:
		return &MapV{}
	case *types.Chan:
		return &ChanV{}
	case *types.Signature:
		return (*FuncV)(nil)
	case *types.Interface:
		return &IfaceV{}
	case *types.Tuple:
		tv := make(TupleV, u.Len())
		for i := range tv {
			tv[i] = m.zero(u.At(i).Type())
		}
		return tv
	}
	unsupported("zero value of %s", t)
	return nil
}

// ---- object access with optional overlay (BMC extraction)

func (m *Machine) newObject(t types.Type, v Value, name string) *Object {
	m.nobj++
	o := &Object{ID: m.nobj, T: t, Val: v, Name: name}
	if m.inSetup {
		o.Setup = true
	}
	if m.W != nil && m.trackObjs {
		m.W.Objs = append(m.W.Objs, o)
	}
	return o
}

func (m *Machine) objVal(o *Object) Value {
	if m.overlay != nil {
		if v, ok := m.overlay[o]; ok {
			return v
		}
		if m.symHeap != nil {
			if v, ok := m.symHeap[o]; ok {
				return v
			}
		}
	}
	return o.Val
}

func (m *Machine) setObjVal(o *Object, v Value) {
	if m.overlay != nil {
		m.overlay[o] = v
		return
	}
	o.Val = v
}

func getPath(v Value, path []int) Value {
	for _, i := range path {
		switch x := v.(type) {
		case *StructV:
			v = x.F[i]
		case *ArrayV:
			if i < 0 || i >= len(x.E) {
				unsupported("internal: array path out of range")
			}
			v = x.E[i]
		default:
			unsupported("internal: path into %T", v)
		}
	}
	return v
}

func setPath(v Value, path []int, nv Value) Value {
	if len(path) == 0 {
		return nv
	}
	i := path[0]
	switch x := v.(type) {
	case *StructV:
		c := &StructV{F: append([]Value(nil), x.F...)}
		c.F[i] = setPath(x.F[i], path[1:], nv)
		return c
	case *ArrayV:
		c := &ArrayV{E: append([]Value(nil), x.E...)}
		c.E[i] = setPath(x.E[i], path[1:], nv)
		return c
	}
	unsupported("internal: set path into %T", v)
	return nil
}

// merge builds ite(c, a, b) over values.
func (m *Machine) merge(c *term.T, a, b Value) Value {
	if c.IsTrue() {
		return a
	}
	if c.IsFalse() {
		return b
	}
	switch x := a.(type) {
	case *term.T:
		if y, ok := b.(*term.T); ok {
			return m.F.Ite(c, x, y)
		}
	case *StructV:
		if y, ok := b.(*StructV); ok && len(x.F) == len(y.F) {
			out := &StructV{F: make([]Value, len(x.F))}
			for i := range x.F {
				out.F[i] = m.merge(c, x.F[i], y.F[i])
			}
			return out
		}
	case *ArrayV:
		if y, ok := b.(*ArrayV); ok && len(x.E) == len(y.E) {
			out := &ArrayV{E: make([]Value, len(x.E))}
			for i := range x.E {
				out.E[i] = m.merge(c, x.E[i], y.E[i])
			}
			return out
		}
	case *PtrV:
		if y, ok := b.(*PtrV); ok {
			ar := x.Arena
			if ar == nil {
				ar = y.Arena
			}
			if ar != nil && (x.Arena == ar || x.IsNil()) && (y.Arena == ar || y.IsNil()) && len(x.Sub) == 0 && len(y.Sub) == 0 {
				xi, yi := m.F.IntC(-1), m.F.IntC(-1)
				if !x.IsNil() {
					xi = x.Idx
				}
				if !y.IsNil() {
					yi = y.Idx
				}
				idx := m.F.Ite(c, xi, yi)
				if idx.IsConst() && idx.I == -1 {
					return &PtrV{}
				}
				return &PtrV{Arena: ar, Idx: idx}
			}
		}
	case *IfaceV:
		if y, ok := b.(*IfaceV); ok {
			if valueIDSafe(x) == valueIDSafe(y) {
				return x
			}
			xt, xp := m.ifaceFlat(x)
			yt, yp := m.ifaceFlat(y)
			return &IfaceV{Tag: m.F.Ite(c, xt, yt), Pay: m.F.Ite(c, xp, yp)}
		}
	}
	if valueIDSafe(a) == valueIDSafe(b) {
		return a
	}
	unsupported("cannot merge values %T and %T under a symbolic condition", a, b)
	return nil
}

func valueIDSafe(v Value) (s string) {
	defer func() {
		if r := recover(); r != nil {
			s = "?"
		}
	}()
	return valueID(v)
}

func (p *PtrV) symPath(k int) []int {
	q := append(append([]int(nil), p.Path...), p.Base+k)
	return append(q, p.Suffix...)
}

func (m *Machine) load(p *PtrV) Value {
	if p.Arena != nil {
		return m.arenaLoad(p)
	}
	if p.Obj == nil {
		m.goPanic("nil pointer dereference")
	}
	if p.SymIdx != nil {
		ov := m.objVal(p.Obj)
		var res Value
		for k := p.SymN - 1; k >= 0; k-- {
			m.noteRead(p.Obj, p.symPath(k))
			v := getPath(ov, p.symPath(k))
			if res == nil {
				res = v
			} else {
				res = m.merge(m.F.Eq(p.SymIdx, m.F.BVC(64, uint64(k))), v, res)
			}
		}
		return res
	}
	m.noteRead(p.Obj, p.Path)
	return getPath(m.objVal(p.Obj), p.Path)
}

func (m *Machine) store(p *PtrV, v Value) {
	if p.Arena != nil {
		m.arenaStore(p, v)
		return
	}
	if p.Obj == nil {
		m.goPanic("nil pointer dereference")
	}
	if p.SymIdx != nil {
		ov := m.objVal(p.Obj)
		for k := 0; k < p.SymN; k++ {
			m.noteWrite(p.Obj, p.symPath(k))
			old := getPath(ov, p.symPath(k))
			ov = setPath(ov, p.symPath(k), m.merge(m.F.Eq(p.SymIdx, m.F.BVC(64, uint64(k))), v, old))
		}
		m.setObjVal(p.Obj, ov)
		return
	}
	if p.Obj.Frozen || m.escaped[p.Obj] {
		unsupported("store into a cell that a spawned goroutine captured from its parent's locals (%s)", p.Obj.T)
	}
	m.noteWrite(p.Obj, p.Path)
	m.setObjVal(p.Obj, setPath(m.objVal(p.Obj), p.Path, v))
}

func (p *PtrV) sub(i int) *PtrV {
	if p.SymIdx != nil {
		q := *p
		q.Suffix = append(append([]int(nil), p.Suffix...), i)
		return &q
	}
	if p.Arena != nil {
		return &PtrV{Arena: p.Arena, Idx: p.Idx, Sub: append(append([]int(nil), p.Sub...), i)}
	}
	return &PtrV{Obj: p.Obj, Path: append(append([]int(nil), p.Path...), i)}
}

// ---- equality as a term

func (m *Machine) eq(a, b Value) *term.T {
	f := m.F
	switch x := a.(type) {
	case *term.T:
		y, ok := b.(*term.T)
		if !ok {
			if _, isAddr := b.(*AddrV); isAddr {
				unsupported("comparison of address with integer")
			}
			unsupported("eq: %T vs %T", a, b)
		}
		if x.S.K == term.KF64 || x.S.K == term.KF32 {
			return f.FEq(x, y)
		}
		return f.Eq(x, y)
	case string:
		switch y := b.(type) {
		case string:
			return f.BoolC(x == y)
		case *SymStr:
			return m.symStrEq(m.toSym(x, len(y.Bytes)), y)
		}
	case *SymStr:
		switch y := b.(type) {
		case string:
			return m.symStrEq(x, m.toSym(y, len(x.Bytes)))
		case *SymStr:
			return m.symStrEq(x, y)
		}
	case *StructV:
		y := b.(*StructV)
		cs := []*term.T{}
		for i := range x.F {
			cs = append(cs, m.eq(x.F[i], y.F[i]))
		}
		return f.And(cs...)
	case *ArrayV:
		y := b.(*ArrayV)
		cs := []*term.T{}
		for i := range x.E {
			cs = append(cs, m.eq(x.E[i], y.E[i]))
		}
		return f.And(cs...)
	case *PtrV:
		y, ok := b.(*PtrV)
		if !ok {
			unsupported("eq: pointer vs %T", b)
		}
		return m.ptrEq(x, y)
	case *ChanV:
		y := b.(*ChanV)
		return f.BoolC(x.C == y.C)
	case *MapV:
		y := b.(*MapV)
		return f.BoolC(x.M == y.M)
	case *SliceV:
		y := b.(*SliceV)
		if x.Obj == nil || y.Obj == nil {
			return f.BoolC(x.Obj == nil && y.Obj == nil)
		}
		unsupported("slice comparison")
	case *FuncV:
		y, _ := b.(*FuncV)
		if x == nil || y == nil {
			return f.BoolC(x == nil && y == nil)
		}
		unsupported("func comparison")
	case *IfaceV:
		y, ok := b.(*IfaceV)
		if !ok {
			unsupported("eq: iface vs %T", b)
		}
		return m.ifaceEq(x, y)
	case *RTypeV:
		y, ok := b.(*RTypeV)
		if !ok {
			return f.False()
		}
		return f.BoolC(types.Identical(x.T, y.T))
	case *ModelV:
		y, ok := b.(*ModelV)
		return f.BoolC(ok && x == y)
	case *AddrV:
		y, ok := b.(*AddrV)
		if !ok {
			unsupported("eq: address vs %T", b)
		}
		return f.BoolC(x.Obj == y.Obj && x.Off == y.Off && pathEq(x.Path, y.Path))
	case nil:
		return f.BoolC(b == nil)
	}
	unsupported("eq: %T vs %T", a, b)
	return nil
}

func pathEq(a, b []int) bool {
	if len(a) != len(b) {
		return false
	}
	for i := range a {
		if a[i] != b[i] {
			return false
		}
	}
	return true
}

func (m *Machine) ptrEq(x, y *PtrV) *term.T {
	f := m.F
	if x.Arena != nil || y.Arena != nil {
		if x.IsNil() {
			return f.Eq(y.Idx, f.IntC(-1))
		}
		if y.IsNil() {
			return f.Eq(x.Idx, f.IntC(-1))
		}
		if x.Arena != y.Arena || !pathEq(x.Sub, y.Sub) {
			return f.False()
		}
		return f.Eq(x.Idx, y.Idx)
	}
	return f.BoolC(x.Obj == y.Obj && pathEq(x.Path, y.Path))
}

func (m *Machine) ifaceEq(x, y *IfaceV) *term.T {
	f := m.F
	if x.Tag != nil || y.Tag != nil {
		xt, xp := m.ifaceFlat(x)
		yt, yp := m.ifaceFlat(y)
		return f.And(f.Eq(xt, yt), f.Eq(xp, yp))
	}
	if x.Dyn == nil || y.Dyn == nil {
		return f.BoolC(x.Dyn == nil && y.Dyn == nil)
	}
	if !types.Identical(x.Dyn, y.Dyn) {
		return f.False()
	}
	return m.eq(x.V, y.V)
}

// ifaceFlat returns (tag, payload) of an interface value for BMC state.
func (m *Machine) ifaceFlat(x *IfaceV) (*term.T, *term.T) {
	f := m.F
	if x.Tag != nil {
		return x.Tag, x.Pay
	}
	if x.Dyn == nil {
		return f.IntC(0), f.BVC(64, 0)
	}
	tag := m.W.dynTag(x.Dyn)
	leaves := m.flatten(x.V, x.Dyn, nil)
	if len(leaves) == 0 {
		return f.IntC(int64(tag)), f.BVC(64, 0)
	}
	if len(leaves) == 1 && leaves[0].S.K == term.KBV {
		return f.IntC(int64(tag)), f.ZExt(64, leaves[0])
	}
	if len(leaves) == 1 && leaves[0].S.K == term.KBool {
		return f.IntC(int64(tag)), f.Ite(leaves[0], f.BVC(64, 1), f.BVC(64, 0))
	}
	unsupported("interface payload of type %s is not a single scalar", x.Dyn)
	return nil, nil
}

// ---- strings

func (m *Machine) toSym(s string, max int) *SymStr {
	f := m.F
	if len(s) > max {
		max = len(s)
	}
	r := &SymStr{Len: f.BVC(64, uint64(len(s)))}
	for i := 0; i < max; i++ {
		if i < len(s) {
			r.Bytes = append(r.Bytes, f.BVC(8, uint64(s[i])))
		} else {
			r.Bytes = append(r.Bytes, f.BVC(8, 0))
		}
	}
	return r
}

func padSym(f *term.Factory, x *SymStr, n int) []*term.T {
	b := append([]*term.T(nil), x.Bytes...)
	for len(b) < n {
		b = append(b, f.BVC(8, 0))
	}
	return b
}

func (m *Machine) symStrEq(x, y *SymStr) *term.T {
	f := m.F
	n := len(x.Bytes)
	if len(y.Bytes) > n {
		n = len(y.Bytes)
	}
	xb, yb := padSym(f, x, n), padSym(f, y, n)
	cs := []*term.T{f.Eq(x.Len, y.Len)}
	for i := 0; i < n; i++ {
		cs = append(cs, f.Eq(xb[i], yb[i]))
	}
	return f.And(cs...)
}

// symStrLt: byte-wise lexicographic, shorter prefix first.
func (m *Machine) symStrLt(x, y *SymStr) *term.T {
	f := m.F
	n := len(x.Bytes)
	if len(y.Bytes) > n {
		n = len(y.Bytes)
	}
	xb, yb := padSym(f, x, n), padSym(f, y, n)
	// lt_i: decided at or after position i
	res := f.ULt(x.Len, y.Len) // all compared bytes equal up to min len -> shorter first
	for i := n - 1; i >= 0; i-- {
		idx := f.BVC(64, uint64(i))
		inX := f.ULt(idx, x.Len)
		inY := f.ULt(idx, y.Len)
		both := f.And(inX, inY)
		// if both have byte i: compare; else fall to length rule
		res = f.Ite(both,
			f.Ite(f.ULt(xb[i], yb[i]), f.True(), f.Ite(f.ULt(yb[i], xb[i]), f.False(), res)),
			f.ULt(x.Len, y.Len))
	}
	return res
}

func (m *Machine) asSym(v Value, max int) *SymStr {
	switch s := v.(type) {
	case string:
		return m.toSym(s, max)
	case *SymStr:
		return s
	}
	unsupported("not a string: %T", v)
	return nil
}

// ---- flattening of values to scalar leaves (BMC state, Same, Fresh)

// leafSorts lists the sorts of the scalar leaves of type t.
func (m *Machine) leafSorts(t types.Type, out []term.Sort) []term.Sort {
	switch u := under(t).(type) {
	case *types.Basic:
		if bits, _, ok := intBits(t); ok {
			return append(out, term.BV(bits))
		}
		if s, ok := isFloat(t); ok {
			return append(out, s)
		}
		if isBool(t) {
			return append(out, term.Bool)
		}
	case *types.Struct:
		for i := 0; i < u.NumFields(); i++ {
			out = m.leafSorts(u.Field(i).Type(), out)
		}
		return out
	case *types.Array:
		for i := 0; i < int(u.Len()); i++ {
			out = m.leafSorts(u.Elem(), out)
		}
		return out
	case *types.Interface:
		return append(out, term.Int, term.BV(64))
	case *types.Pointer:
		if m.W != nil {
			if ar := m.W.arenaFor(u.Elem()); ar != nil {
				return append(out, term.Int)
			}
		}
	}
	unsupported("type %s cannot be kept in BMC state", t)
	return nil
}

func (m *Machine) isFlat(t types.Type) (ok bool) {
	defer func() {
		if r := recover(); r != nil {
			if _, is := r.(Unsupported); is {
				ok = false
				return
			}
			panic(r)
		}
	}()
	m.leafSorts(t, nil)
	return true
}

func (m *Machine) flatten(v Value, t types.Type, out []*term.T) []*term.T {
	switch u := under(t).(type) {
	case *types.Basic:
		if x, ok := v.(*term.T); ok {
			return append(out, x)
		}
	case *types.Struct:
		s := v.(*StructV)
		for i := 0; i < u.NumFields(); i++ {
			out = m.flatten(s.F[i], u.Field(i).Type(), out)
		}
		return out
	case *types.Array:
		a := v.(*ArrayV)
		for i := 0; i < int(u.Len()); i++ {
			out = m.flatten(a.E[i], u.Elem(), out)
		}
		return out
	case *types.Interface:
		tag, pay := m.ifaceFlat(v.(*IfaceV))
		return append(out, tag, pay)
	case *types.Pointer:
		p := v.(*PtrV)
		if p.IsNil() {
			return append(out, m.F.IntC(-1))
		}
		if p.Arena != nil && len(p.Sub) == 0 {
			return append(out, p.Idx)
		}
	}
	unsupported("value %T of type %s cannot be kept in BMC state", v, t)
	return nil
}

func (m *Machine) unflatten(t types.Type, leaves []*term.T, pos *int) Value {
	take := func() *term.T { x := leaves[*pos]; *pos++; return x }
	switch u := under(t).(type) {
	case *types.Basic:
		return take()
	case *types.Struct:
		s := &StructV{F: make([]Value, u.NumFields())}
		for i := range s.F {
			s.F[i] = m.unflatten(u.Field(i).Type(), leaves, pos)
		}
		return s
	case *types.Array:
		a := &ArrayV{E: make([]Value, int(u.Len()))}
		for i := range a.E {
			a.E[i] = m.unflatten(u.Elem(), leaves, pos)
		}
		return a
	case *types.Interface:
		tag := take()
		pay := take()
		if tag.IsConst() {
			if tag.I == 0 {
				return &IfaceV{}
			}
			return m.W.ifaceFromTag(m, int(tag.I), pay)
		}
		return &IfaceV{Tag: tag, Pay: pay}
	case *types.Pointer:
		idx := take()
		ar := m.W.arenaFor(u.Elem())
		if idx.IsConst() && idx.I == -1 {
			return &PtrV{}
		}
		return &PtrV{Arena: ar, Idx: idx}
	}
	unsupported("unflatten %s", t)
	return nil
}

// ---- Same (deep structural equality as term)

func (m *Machine) same(a, b Value) *term.T {
	f := m.F
	switch x := a.(type) {
	case *term.T:
		y := b.(*term.T)
		return f.Eq(x, y) // bit-wise for floats too
	case *SliceV:
		y := b.(*SliceV)
		return f.BoolC(x.Obj == y.Obj && x.Off == y.Off && x.Len == y.Len && x.Cap == y.Cap)
	case *FuncV:
		y, _ := b.(*FuncV)
		return f.BoolC(x == y)
	case *StructV:
		y := b.(*StructV)
		cs := []*term.T{}
		for i := range x.F {
			cs = append(cs, m.same(x.F[i], y.F[i]))
		}
		return f.And(cs...)
	case *ArrayV:
		y := b.(*ArrayV)
		cs := []*term.T{}
		for i := range x.E {
			cs = append(cs, m.same(x.E[i], y.E[i]))
		}
		return f.And(cs...)
	case *IfaceV:
		y := b.(*IfaceV)
		if x.Tag == nil && y.Tag == nil {
			if x.Dyn == nil || y.Dyn == nil {
				return f.BoolC(x.Dyn == nil && y.Dyn == nil)
			}
			if !types.Identical(x.Dyn, y.Dyn) {
				return f.False()
			}
			return m.same(x.V, y.V)
		}
		return m.ifaceEq(x, y)
	}
	return m.eq(a, b)
}

// ---- describing values (diagnostics / samples)

func (m *Machine) show(v Value) string {
	switch x := v.(type) {
	case *term.T:
		return m.F.String(x)
	case string:
		return fmt.Sprintf("%q", x)
	case *SymStr:
		return "symstr(" + m.F.String(x.Len) + ")"
	case *StructV:
		var ps []string
		for _, e := range x.F {
			ps = append(ps, m.show(e))
		}
		return "{" + strings.Join(ps, ", ") + "}"
	case *ArrayV:
		var ps []string
		for _, e := range x.E {
			ps = append(ps, m.show(e))
		}
		return "[" + strings.Join(ps, ", ") + "]"
	case TupleV:
		var ps []string
		for _, e := range x {
			ps = append(ps, m.show(e))
		}
		return "(" + strings.Join(ps, ", ") + ")"
	case *PtrV:
		if x.IsNil() {
			return "nil"
		}
		if x.Arena != nil {
			return fmt.Sprintf("&%s[%s]%v", x.Arena.Name, m.F.String(x.Idx), x.Sub)
		}
		return fmt.Sprintf("&obj%d%v", x.Obj.ID, x.Path)
	case *SliceV:
		if x.Obj == nil {
			return "nil-slice"
		}
		return fmt.Sprintf("slice(obj%d,%d,%d,%d)", x.Obj.ID, x.Off, x.Len, x.Cap)
	case *IfaceV:
		if x.Tag != nil {
			return "iface(sym)"
		}
		if x.Dyn == nil {
			return "nil-iface"
		}
		return fmt.Sprintf("iface(%s: %s)", x.Dyn, m.show(x.V))
	case *FuncV:
		if x == nil {
			return "nil-func"
		}
		if x.Fn != nil {
			return "func " + x.Fn.String()
		}
		return "func<" + x.Builtin + ">"
	case *ChanV:
		if x.C == nil {
			return "nil-chan"
		}
		return fmt.Sprintf("chan%d", x.C.ID)
	case *RTypeV:
		return "rtype(" + x.T.String() + ")"
	case *MapV:
		if x.M == nil {
			return "nil-map"
		}
		ks := append([]string(nil), x.M.Keys...)
		sort.Strings(ks)
		return fmt.Sprintf("map%v", ks)
	case nil:
		return "<nil>"
	}
	return fmt.Sprintf("%T", v)
}
