package interp

import (
	"fmt"
	"os"
	"sort"
	"strconv"
	"strings"

	"golang.org/x/tools/go/ssa"

	"verif.local/engine/smt"
	"verif.local/engine/term"
)

type bmcHooks struct {
	visible   func(m *Machine, fr *Frame, instr ssa.Instruction) bool
	alloc     func(m *Machine, fr *Frame, in *ssa.Alloc, et typesType) *Object
	intrinsic func(m *Machine, name string, fn *ssa.Function, args []Value) *modelRes
	spawn     func(m *Machine, fr *Frame, in *ssa.Go, f *FuncV, args []Value)
	makeChan  func(m *Machine, cap int, et typesType, name string) *Chan
}

func (m *Machine) noteRead(o *Object, path []int) {
	if m.trackRW {
		m.reads[cellKey(o, path)] = true
	}
}

func (m *Machine) noteWrite(o *Object, path []int) {
	if m.trackRW {
		m.writes[cellKey(o, path)] = true
	}
}

func cellKey(o *Object, path []int) string {
	var sb strings.Builder
	sb.WriteString("o")
	sb.WriteString(strconv.Itoa(o.ID))
	for _, p := range path {
		sb.WriteByte('.')
		sb.WriteString(strconv.Itoa(p))
	}
	return sb.String()
}

// SeqJob describes one sequential symbolic-execution job.
type SeqJob struct {
	Harness  string
	Params   map[string]int
	Solver   string
	Timeout  int // ms per query
	MaxPaths int
	Fuel     int
}

func newMachine(w *World, f *term.Factory, s *smt.Solver, r *Results, fuel int) *Machine {
	return &Machine{W: w, F: f, S: s, R: r, globals: map[*ssa.Global]*Object{}, initDone: map[*ssa.Package]bool{}, fuel: fuel}
}

// RunSeq explores every path of the harness function.
func RunSeq(prog *ssa.Program, sizes typesSizes, fn *ssa.Function, job *SeqJob) (*Results, *smt.Stats, error) {
	f := term.NewFactory()
	kind := job.Solver
	if kind == "" {
		kind = "z3new"
	}
	to := job.Timeout
	if to == 0 {
		to = 60000
	}
	s, err := smt.New(kind, f, to)
	if err != nil {
		return nil, nil, err
	}
	defer func() { s.Close() }()
	var acc statsAcc
	r := NewResults()
	fuel := job.Fuel
	if fuel == 0 {
		fuel = 200000
	}
	maxPaths := job.MaxPaths
	if maxPaths == 0 {
		maxPaths = 2000000
	}
	work := [][]int{nil}
	constCache := map[*ssa.Const]Value{}
	for len(work) > 0 {
		if r.Paths >= maxPaths {
			r.Unsupported = append(r.Unsupported, fmt.Sprintf("path limit %d reached", maxPaths))
			break
		}
		if r.Paths > 0 && r.Paths%restartEvery == 0 {
			// a fresh solver process drops the definitions accumulated so far
			acc.add(s.Stats)
			s.Close()
			if s, err = smt.New(kind, f, to); err != nil {
				return nil, nil, err
			}
		}
		prefix := work[len(work)-1]
		work = work[:len(work)-1]
		w := &World{Prog: prog, Sizes: sizes, Params: job.Params}
		m := newMachine(w, f, s, r, fuel)
		m.constCache = constCache
		m.prefix = prefix
		f.ResetFresh()
		s.Push()
		m.runPath(fn)
		s.Pop()
		work = append(work, m.pending...)
		if len(r.Unsupported) > 20 {
			break
		}
	}
	for fn, n := range r.FuncPtr {
		r.Funcs[fn.String()] += n
	}
	// cross-check a sample of the discharged assertion queries on a second solver
	if len(r.CrossSample) > 0 && os.Getenv("VERIF_NOCROSS") == "" {
		other := "cvc5"
		if kind == "cvc5" {
			other = "z3new"
		}
		if s2, err := smt.New(other, f, 60000); err == nil {
			for _, q := range r.CrossSample {
				res2, err := s2.CheckWith(false, q.F)
				if err != nil || res2 == smt.Unknown {
					r.CrossUnknown++
					continue
				}
				r.CrossChecked++
				if res2 != q.Res {
					r.CrossDisagree++
					r.Unknown = append(r.Unknown, fmt.Sprintf("solver disagreement on assertion %q: %s says %v, %s says %v", q.Label, kind, q.Res, other, res2))
				}
			}
			s2.Close()
		}
	}
	r.CrossSample = nil
	acc.add(s.Stats)
	st := acc.Stats
	return r, &st, nil
}

const restartEvery = 300

type statsAcc struct{ smt.Stats }

func (a *statsAcc) add(s smt.Stats) {
	a.Queries += s.Queries
	a.Sat += s.Sat
	a.Unsat += s.Unsat
	a.Unknown += s.Unknown
	a.Errors += s.Errors
	a.Seconds += s.Seconds
	if s.MaxQuery > a.MaxQuery {
		a.MaxQuery = s.MaxQuery
	}
}

func (m *Machine) runPath(fn *ssa.Function) {
	r := m.R
	r.Paths++
	nviol := len(r.Violations)
	nontriv := false
	m.onNontrivial = func() { nontriv = true }
	defer func() {
		if nontriv {
			r.Nontrivial++
		}
		if len(r.Samples) < 6 && (nontriv || r.Paths <= 2) {
			r.Samples = append(r.Samples, fmt.Sprintf("path %d: decisions=%v choices=%v asserts-so-far=%v", r.Paths, m.dec, m.choiceLog, keysOf(r.AssertsHit)))
		}
		_ = nviol
		if x := recover(); x != nil {
			switch e := x.(type) {
			case pathEnd:
				if e.reason != "done" {
					r.Infeasible++
				}
			case goPanicSig:
				m.reportViolation("panic", e.msg, nil)
			case UnsafeViolation:
				m.reportViolation("unsafe", e.Msg, nil)
			case Unsupported:
				r.Unsupported = append(r.Unsupported, e.Msg+" @ "+m.where())
			default:
				panic(x)
			}
		}
	}()
	m.pushCall(fn, nil, nil, nil)
	m.run(0)
}

func keysOf(mm map[string]int) []string {
	var ks []string
	for k := range mm {
		ks = append(ks, k)
	}
	sort.Strings(ks)
	return ks
}

func (m *Machine) where() string {
	var ps []string
	for i := len(m.stack) - 1; i >= 0 && len(ps) < 6; i-- {
		fr := m.stack[i]
		pos := ""
		if fr.idx > 0 && fr.idx <= len(fr.blk.Instrs) {
			p := fr.blk.Instrs[fr.idx-1].Pos()
			if p.IsValid() {
				pp := m.W.Prog.Fset.Position(p)
				pos = fmt.Sprintf(":%d", pp.Line)
			}
		}
		ps = append(ps, fr.fn.String()+pos)
	}
	return strings.Join(ps, " < ")
}

func (m *Machine) doCover(label string) {
	if m.procMode {
		m.covers = append(m.covers, label)
		return
	}
	m.R.Covers[label]++
}

func (m *Machine) doAssert(label string, c *term.T) {
	r := m.R
	if m.procMode {
		m.asserts = append(m.asserts, assertRec{label: label, cond: c})
		return
	}
	r.AssertsHit[label]++
	if (len(m.inputs) > 0 || len(m.choiceLog) > 0) && m.onNontrivial != nil {
		m.onNontrivial()
	}
	if c.IsTrue() {
		r.AssertsTriv[label]++
		r.Syntactic++
		return
	}
	nc := m.F.Not(c)
	res := smt.Unsat
	if !nc.IsFalse() {
		m.flushPC()
		var err error
		res, err = m.S.CheckWith(true, nc)
		if err != nil {
			r.Unknown = append(r.Unknown, "assert "+label+": "+err.Error())
		}
	}
	if (res == smt.Sat || res == smt.Unsat) && len(r.CrossSample) < 25 && (r.AssertsHit[label] <= 3) {
		r.CrossSample = append(r.CrossSample, CrossQuery{F: m.F.And(append(append([]*term.T(nil), m.pc...), nc)...), Res: res, Label: label})
	}
	switch res {
	case smt.Sat:
		m.reportViolation(label, "assertion can fail", []*term.T{nc})
		m.S.Pop()
	case smt.Unknown:
		r.Unknown = append(r.Unknown, "assert "+label+": solver answered unknown")
	}
	if c.IsFalse() {
		return // reported; the harness goes on, as the native run would
	}
	m.assume(c)
	if res == smt.Sat {
		if m.feasible(m.F.True()) == smt.Unsat {
			panic(pathEnd{"assert always fails"})
		}
	}
}

// reportViolation records a violation; if extra is non-nil the solver is in a
// Sat state (scope pushed) and a model is extracted.
func (m *Machine) reportViolation(label, detail string, extra []*term.T) {
	v := &Violation{Label: label, Detail: detail + " @ " + m.where(), Decision: append([]int(nil), m.dec...)}
	haveModel := extra != nil
	if !haveModel {
		// need a model of the path condition; prefer one whose inputs are pairwise
		// distinct and non-zero, so that a misdirected read or write is observable
		// when the counterexample is replayed natively
		m.flushPC()
		var distinct []*term.T
		bySort := map[term.Sort][]*term.T{}
		for i := len(m.inputs) - 1; i >= 0; i-- { // most recent inputs first
			v := m.inputs[i]
			if strings.HasSuffix(v.Name, ".len") || v.S.W == 8 && strings.Contains(v.Name, ".b") {
				continue // string lengths and bytes are constrained already
			}
			if v.S.K == term.KBV && v.S.W >= 8 && len(bySort[v.S]) < 40 {
				bySort[v.S] = append(bySort[v.S], v)
			}
		}
		for so, vs := range bySort {
			for i, a := range vs {
				distinct = append(distinct, m.F.Not(m.F.Eq(a, m.F.BVC(so.W, 0))))
				for _, b := range vs[i+1:] {
					distinct = append(distinct, m.F.Not(m.F.Eq(a, b)))
				}
			}
		}
		res, err := m.S.CheckWith(true, distinct...)
		if debugBranch {
			fmt.Fprintf(os.Stderr, "distinct-model query: %v %v (%d constraints)\n", res, err, len(distinct))
		}
		if err == nil && res == smt.Sat {
			haveModel = true
			defer m.S.Pop()
		} else {
			res, err = m.S.CheckWith(true)
			if err == nil && res == smt.Sat {
				haveModel = true
				defer m.S.Pop()
			}
		}
	}
	if haveModel {
		vals, ufs, err := m.extractModel(extra)
		if err != nil {
			m.R.Unknown = append(m.R.Unknown, "model extraction: "+err.Error())
		}
		v.Vals, v.UFs = vals, ufs
	}
	if v.Vals == nil {
		v.Vals = map[string]string{}
	}
	for k, c := range m.choiceLog {
		v.Vals[k] = c
	}
	for k, p := range m.W.Params {
		v.Vals["param:"+k] = strconv.Itoa(p)
	}
	m.R.Violations = append(m.R.Violations, v)
}

func constText(t *term.T) string {
	switch t.S.K {
	case term.KBool:
		if t.V == 1 {
			return "true"
		}
		return "false"
	case term.KBV:
		return strconv.FormatInt(term.SignedVal(t), 10)
	case term.KInt:
		return strconv.FormatInt(t.I, 10)
	default:
		return strconv.FormatFloat(t.F, 'g', -1, 64)
	}
}

func (m *Machine) extractModel(extra []*term.T) (map[string]string, map[string]string, error) {
	vars := map[*term.T]bool{}
	apps := map[*term.T]bool{}
	seenV, seenA := map[int]bool{}, map[int]bool{}
	all := append(append([]*term.T(nil), m.pc...), extra...)
	for _, t := range all {
		term.FreeVars(t, vars, seenV)
		term.Apps(t, apps, seenA)
	}
	for _, v := range m.inputs {
		vars[v] = true
	}
	return ModelOf(m.F, m.S, vars, apps)
}

// ModelOf reads variable values and UF tables out of a Sat solver state.
func ModelOf(f *term.Factory, s *smt.Solver, vars, apps map[*term.T]bool) (map[string]string, map[string]string, error) {
	var ts []*term.T
	for v := range vars {
		ts = append(ts, v)
	}
	var as []*term.T
	for a := range apps {
		as = append(as, a)
		ts = append(ts, a)
		ts = append(ts, a.A...)
	}
	sort.Slice(ts, func(i, j int) bool { return ts[i].ID < ts[j].ID })
	// dedupe
	var uts []*term.T
	for i, t := range ts {
		if i == 0 || ts[i-1] != t {
			uts = append(uts, t)
		}
	}
	got, err := s.Values(uts)
	if err != nil {
		return nil, nil, err
	}
	vals := map[string]string{}
	for v := range vars {
		if c, ok := got[v]; ok {
			vals[v.Name] = constText(c)
		}
	}
	// strings: K.len + K.b<i>
	for name, lv := range vals {
		if !strings.HasSuffix(name, ".len") {
			continue
		}
		base := strings.TrimSuffix(name, ".len")
		n, _ := strconv.Atoi(lv)
		var bs []byte
		for i := 0; i < n; i++ {
			bv, ok := vals[fmt.Sprintf("%s.b%d", base, i)]
			if !ok {
				break
			}
			x, _ := strconv.Atoi(bv)
			bs = append(bs, byte(x))
		}
		vals[base] = strconv.Quote(string(bs))
	}
	ufs := map[string]string{}
	for _, a := range as {
		var ps []string
		for _, x := range a.A {
			ps = append(ps, constText(got[x]))
		}
		ufs[a.Name+"("+strings.Join(ps, ",")+")"] = constText(got[a])
	}
	return vals, ufs, nil
}

// arena access is provided by the BMC layer.
func (m *Machine) arenaLoad(p *PtrV) Value {
	if m.arenaLoadFn == nil {
		unsupported("arena pointer outside BMC")
	}
	return m.arenaLoadFn(p)
}

func (m *Machine) arenaStore(p *PtrV, v Value) {
	if m.arenaStoreFn == nil {
		unsupported("arena pointer outside BMC")
	}
	m.arenaStoreFn(p, v)
}
