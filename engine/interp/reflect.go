package interp

import (
	"go/token"
	"go/types"
	"strings"

	"verif.local/engine/term"
)

const tokenLSS = token.LSS

func (m *Machine) rtypeIface(t types.Type) Value {
	return &IfaceV{Dyn: rtypeMarker, V: &RTypeV{T: t}}
}

func reflectKind(t types.Type) int {
	switch u := t.Underlying().(type) {
	case *types.Basic:
		switch u.Kind() {
		case types.Bool:
			return 1
		case types.Int:
			return 2
		case types.Int8:
			return 3
		case types.Int16:
			return 4
		case types.Int32:
			return 5
		case types.Int64:
			return 6
		case types.Uint:
			return 7
		case types.Uint8:
			return 8
		case types.Uint16:
			return 9
		case types.Uint32:
			return 10
		case types.Uint64:
			return 11
		case types.Uintptr:
			return 12
		case types.Float32:
			return 13
		case types.Float64:
			return 14
		case types.Complex64:
			return 15
		case types.Complex128:
			return 16
		case types.String:
			return 24
		case types.UnsafePointer:
			return 26
		}
	case *types.Array:
		return 17
	case *types.Chan:
		return 18
	case *types.Signature:
		return 19
	case *types.Interface:
		return 20
	case *types.Map:
		return 21
	case *types.Pointer:
		return 22
	case *types.Slice:
		return 23
	case *types.Struct:
		return 25
	}
	return 0
}

func pkgNameQualifier(p *types.Package) string { return p.Name() }

func reflectName(t types.Type) string {
	t = types.Unalias(t)
	switch x := t.(type) {
	case *types.Named:
		n := x.Obj().Name()
		if ta := x.TypeArgs(); ta != nil && ta.Len() > 0 {
			var ps []string
			for i := 0; i < ta.Len(); i++ {
				ps = append(ps, types.TypeString(ta.At(i), func(p *types.Package) string { return p.Path() }))
			}
			n += "[" + strings.Join(ps, ",") + "]"
		}
		return n
	case *types.Basic:
		return x.Name()
	}
	return ""
}

func (m *Machine) reflectMethod(r *RTypeV, name string, args []Value, meth *types.Func) Value {
	f := m.F
	t := r.T
	m.R.Stubs["reflect.Type."+name]++
	switch name {
	case "Kind":
		return f.BVC(64, uint64(reflectKind(t)))
	case "Name":
		return reflectName(t)
	case "String":
		return types.TypeString(t, pkgNameQualifier)
	case "PkgPath":
		if n, ok := types.Unalias(t).(*types.Named); ok && n.Obj().Pkg() != nil {
			return n.Obj().Pkg().Path()
		}
		return ""
	case "Size":
		if hasSymLayout(t) {
			sz, _ := m.symSizeAlign(t)
			return sz
		}
		return f.BVC(64, uint64(m.W.Sizes.Sizeof(t)))
	case "Align", "FieldAlign":
		if hasSymLayout(t) {
			_, al := m.symSizeAlign(t)
			return al
		}
		return f.BVC(64, uint64(m.W.Sizes.Alignof(t)))
	case "Elem":
		switch u := t.Underlying().(type) {
		case *types.Pointer:
			return m.rtypeIface(u.Elem())
		case *types.Slice:
			return m.rtypeIface(u.Elem())
		case *types.Array:
			return m.rtypeIface(u.Elem())
		case *types.Chan:
			return m.rtypeIface(u.Elem())
		case *types.Map:
			return m.rtypeIface(u.Elem())
		}
		m.goPanic("reflect: Elem of invalid type %s", t)
	case "Key":
		if u, ok := t.Underlying().(*types.Map); ok {
			return m.rtypeIface(u.Key())
		}
		m.goPanic("reflect: Key of non-map type %s", t)
	case "Len":
		if u, ok := t.Underlying().(*types.Array); ok {
			return f.BVC(64, uint64(u.Len()))
		}
		m.goPanic("reflect: Len of non-array type %s", t)
	case "NumField":
		u, ok := t.Underlying().(*types.Struct)
		if !ok {
			m.goPanic("reflect: NumField of non-struct type %s", t)
		}
		return f.BVC(64, uint64(u.NumFields()))
	case "Field":
		u, ok := t.Underlying().(*types.Struct)
		if !ok {
			m.goPanic("reflect: Field of non-struct type %s", t)
		}
		i := m.constInt(args[0])
		if i < 0 || i >= u.NumFields() {
			m.goPanic("reflect: Field index out of bounds")
		}
		sf := m.structField(u, i, meth.Type().(*types.Signature).Results().At(0).Type())
		if hasSymLayout(t) {
			// layout-symbolic mode: the offset is the term the layout rule yields
			st := meth.Type().(*types.Signature).Results().At(0).Type().Underlying().(*types.Struct)
			for k := 0; k < st.NumFields(); k++ {
				if st.Field(k).Name() == "Offset" {
					sf.(*StructV).F[k] = m.symOffsetOf(t, []int{i})
				}
			}
		}
		return sf
	case "AssignableTo":
		o := args[0].(*IfaceV).V.(*RTypeV)
		return f.BoolC(types.AssignableTo(t, o.T))
	case "ConvertibleTo":
		o := args[0].(*IfaceV).V.(*RTypeV)
		return f.BoolC(types.ConvertibleTo(t, o.T))
	case "Implements":
		o := args[0].(*IfaceV).V.(*RTypeV)
		it, ok := o.T.Underlying().(*types.Interface)
		if !ok {
			m.goPanic("reflect: non-interface type passed to Type.Implements")
		}
		return f.BoolC(types.Implements(t, it))
	case "Comparable":
		return f.BoolC(types.Comparable(t))
	case "NumMethod":
		return f.BVC(64, uint64(m.W.Prog.MethodSets.MethodSet(t).Len()))
	}
	unsupported("reflect.Type.%s", name)
	return nil
}

func (m *Machine) structField(u *types.Struct, i int, sfT types.Type) Value {
	f := m.F
	fs := make([]*types.Var, u.NumFields())
	for k := range fs {
		fs[k] = u.Field(k)
	}
	offs := m.W.Sizes.Offsetsof(fs)
	fv := u.Field(i)
	st := sfT.Underlying().(*types.Struct)
	out := &StructV{F: make([]Value, st.NumFields())}
	for k := 0; k < st.NumFields(); k++ {
		switch st.Field(k).Name() {
		case "Name":
			out.F[k] = fv.Name()
		case "PkgPath":
			if fv.Exported() || fv.Pkg() == nil {
				out.F[k] = ""
			} else {
				out.F[k] = fv.Pkg().Path()
			}
		case "Type":
			out.F[k] = m.rtypeIface(fv.Type())
		case "Tag":
			out.F[k] = u.Tag(i)
		case "Offset":
			out.F[k] = f.BVC(64, uint64(offs[i]))
		case "Index":
			it := types.Typ[types.Int]
			o := m.newObject(types.NewArray(it, 1), &ArrayV{E: []Value{f.BVC(64, uint64(i))}}, "sf.Index")
			out.F[k] = &SliceV{Obj: o, Len: 1, Cap: 1, ElemT: it}
		case "Anonymous":
			out.F[k] = f.BoolC(fv.Embedded())
		default:
			out.F[k] = m.zero(st.Field(k).Type())
		}
	}
	return out
}

var _ = term.Bool
