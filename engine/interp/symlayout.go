package interp

import (
	"fmt"
	"go/types"
	"strings"

	"verif.local/engine/term"
)

// Layout-symbolic mode (DESIGN.md C01/C03, thorough idea made real): struct
// types whose name starts with "VSym" and leaf types whose name starts with
// "VSymL" do not get the compiler's layout. Every VSymL type has a symbolic
// size and alignment (alignment in {1,2,4,8}, size a positive multiple of it,
// at most 64); the field offsets, size and alignment of a VSym struct are the
// TERMS the Go layout rule yields from them. The reflect model reports those
// terms, the unsafe memory model resolves a symbolic address to a field only
// if the solver proves the address equal to that field's offset under every
// layout, and anything else is a memory-model violation with a layout as the
// counterexample.

type symLayout struct {
	offs        []*term.T
	size, align *term.T
}

func isSymNamed(t types.Type) (string, bool) {
	n, ok := types.Unalias(t).(*types.Named)
	if !ok {
		return "", false
	}
	name := n.Obj().Name()
	if strings.HasPrefix(name, "VSym") {
		return name, true
	}
	return "", false
}

func isSymLeaf(t types.Type) bool {
	name, ok := isSymNamed(t)
	return ok && strings.HasPrefix(name, "VSymL")
}

func isSymStruct(t types.Type) bool {
	_, ok := isSymNamed(t)
	if !ok || isSymLeaf(t) {
		return false
	}
	_, isS := t.Underlying().(*types.Struct)
	return isS
}

// hasSymLayout reports whether t contains (by value) a symbolic-layout type.
func hasSymLayout(t types.Type) bool {
	if isSymLeaf(t) || isSymStruct(t) {
		return true
	}
	switch u := t.Underlying().(type) {
	case *types.Struct:
		for i := 0; i < u.NumFields(); i++ {
			if hasSymLayout(u.Field(i).Type()) {
				return true
			}
		}
	case *types.Array:
		return hasSymLayout(u.Elem())
	}
	return false
}

func (m *Machine) alignUp(x, a *term.T) *term.T {
	f := m.F
	one := f.BVC(64, 1)
	am1 := f.Sub(a, one)
	return f.BAnd(f.Add(x, am1), f.BNot(am1))
}

// symSizeAlign gives size and alignment of any type as terms.
func (m *Machine) symSizeAlign(t types.Type) (*term.T, *term.T) {
	f := m.F
	if isSymLeaf(t) {
		name, _ := isSymNamed(t)
		if m.W.symLeaves == nil {
			m.W.symLeaves = map[string][2]*term.T{}
		}
		if sa, ok := m.W.symLeaves[name]; ok {
			return sa[0], sa[1]
		}
		s := f.Var("layout.size."+name, term.BV(64))
		a := f.Var("layout.align."+name, term.BV(64))
		m.inputs = append(m.inputs, s, a)
		m.assume(f.Or(f.Eq(a, f.BVC(64, 1)), f.Eq(a, f.BVC(64, 2)), f.Eq(a, f.BVC(64, 4)), f.Eq(a, f.BVC(64, 8))))
		m.assume(f.And(f.ULe(f.BVC(64, 1), s), f.ULe(s, f.BVC(64, 64)), f.Eq(f.BAnd(s, f.Sub(a, f.BVC(64, 1))), f.BVC(64, 0))))
		m.W.symLeaves[name] = [2]*term.T{s, a}
		return s, a
	}
	if isSymStruct(t) {
		l := m.symLayoutOf(t)
		return l.size, l.align
	}
	if hasSymLayout(t) {
		// an ordinary struct/array that contains symbolic-layout members: apply the layout rule
		switch u := t.Underlying().(type) {
		case *types.Struct:
			l := m.layoutStruct(u)
			return l.size, l.align
		case *types.Array:
			es, ea := m.symSizeAlign(u.Elem())
			return f.Mul(es, f.BVC(64, uint64(u.Len()))), ea
		}
	}
	return f.BVC(64, uint64(m.W.Sizes.Sizeof(t))), f.BVC(64, uint64(m.W.Sizes.Alignof(t)))
}

func (m *Machine) layoutStruct(u *types.Struct) *symLayout {
	f := m.F
	l := &symLayout{}
	cur := f.BVC(64, 0)
	al := f.BVC(64, 1)
	for i := 0; i < u.NumFields(); i++ {
		s, a := m.symSizeAlign(u.Field(i).Type())
		o := m.alignUp(cur, a)
		l.offs = append(l.offs, o)
		cur = f.Add(o, s)
		al = f.Ite(f.ULt(al, a), a, al)
	}
	l.align = al
	l.size = m.alignUp(cur, al)
	return l
}

func (m *Machine) symLayoutOf(t types.Type) *symLayout {
	key := types.TypeString(t, nil)
	if m.W.symLayouts == nil {
		m.W.symLayouts = map[string]*symLayout{}
	}
	if l, ok := m.W.symLayouts[key]; ok {
		return l
	}
	l := m.layoutStruct(t.Underlying().(*types.Struct))
	m.W.symLayouts[key] = l
	return l
}

// symOffsetOf: byte offset of the sub-object at path inside a value of type t, as a term.
func (m *Machine) symOffsetOf(t types.Type, path []int) *term.T {
	f := m.F
	off := f.BVC(64, 0)
	for _, i := range path {
		switch u := under(t).(type) {
		case *types.Struct:
			if hasSymLayout(t) {
				var l *symLayout
				if isSymStruct(t) {
					l = m.symLayoutOf(t)
				} else {
					l = m.layoutStruct(u)
				}
				off = f.Add(off, l.offs[i])
			} else {
				fs := make([]*types.Var, u.NumFields())
				for k := range fs {
					fs[k] = u.Field(k)
				}
				off = f.Add(off, f.BVC(64, uint64(m.W.Sizes.Offsetsof(fs)[i])))
			}
			t = u.Field(i).Type()
		case *types.Array:
			es, _ := m.symSizeAlign(u.Elem())
			off = f.Add(off, f.Mul(es, f.BVC(64, uint64(i))))
			t = u.Elem()
		default:
			unsupported("offset into %s", t)
		}
	}
	return off
}

type symCand struct {
	path []int
	off  *term.T
}

// symCandidates lists every sub-object (by-value nesting) of type et inside t.
func (m *Machine) symCandidates(t types.Type, et types.Type, path []int, off *term.T, out []symCand) []symCand {
	f := m.F
	if types.Identical(t, et) {
		out = append(out, symCand{append([]int(nil), path...), off})
	}
	switch u := under(t).(type) {
	case *types.Struct:
		for i := 0; i < u.NumFields(); i++ {
			o := m.symOffsetOf(t, []int{i})
			out = m.symCandidates(u.Field(i).Type(), et, append(path, i), f.Add(off, o), out)
		}
	case *types.Array:
		n := int(u.Len())
		if n > 8 {
			n = 8
		}
		for i := 0; i < n; i++ {
			o := m.symOffsetOf(t, []int{i})
			out = m.symCandidates(u.Elem(), et, append(path, i), f.Add(off, o), out)
		}
	}
	return out
}

// resolveSymAddr decides which field a symbolic address designates.
func (m *Machine) resolveSymAddr(a *AddrV, et types.Type) Value {
	f := m.F
	total := f.Add(m.symOffsetOf(a.Obj.T, a.Path), f.BVC(64, uint64(a.Off)))
	if a.Sym != nil {
		total = f.Add(total, a.Sym)
	}
	cands := m.symCandidates(a.Obj.T, et, nil, f.BVC(64, 0), nil)
	for _, c := range cands {
		if m.branch(f.Eq(total, c.off), "unsafe address == field offset") {
			return &PtrV{Obj: a.Obj, Path: c.path}
		}
	}
	panic(UnsafeViolation{fmt.Sprintf("unsafe access as %s inside %s: under some layout the computed address is not the offset of any field of that type", et, a.Obj.T)})
}
