package interp

import (
	"sync"

	"golang.org/x/tools/go/ssa"
)

// Backward liveness over SSA registers (instructions that are values, and
// parameters). Phi operands are uses at the end of the corresponding
// predecessor.

type liveInfo struct {
	out map[*ssa.BasicBlock]map[ssa.Value]bool
}

var (
	liveMu    sync.Mutex
	liveCache = map[*ssa.Function]*liveInfo{}
)

func isReg(v ssa.Value) bool {
	switch v.(type) {
	case *ssa.Parameter:
		return true
	case *ssa.Const, *ssa.Global, *ssa.Function, *ssa.Builtin, *ssa.FreeVar:
		return false
	}
	_, ok := v.(ssa.Instruction)
	return ok
}

func instrUses(in ssa.Instruction, f func(ssa.Value)) {
	var buf [8]*ssa.Value
	for _, op := range in.Operands(buf[:0]) {
		if *op != nil && isReg(*op) {
			f(*op)
		}
	}
}

func liveness(fn *ssa.Function) *liveInfo {
	liveMu.Lock()
	defer liveMu.Unlock()
	if li, ok := liveCache[fn]; ok {
		return li
	}
	li := &liveInfo{out: map[*ssa.BasicBlock]map[ssa.Value]bool{}}
	in := map[*ssa.BasicBlock]map[ssa.Value]bool{}
	for _, b := range fn.Blocks {
		li.out[b] = map[ssa.Value]bool{}
		in[b] = map[ssa.Value]bool{}
	}
	changed := true
	for changed {
		changed = false
		for i := len(fn.Blocks) - 1; i >= 0; i-- {
			b := fn.Blocks[i]
			out := li.out[b]
			for _, s := range b.Succs {
				for v := range in[s] {
					if !out[v] {
						out[v] = true
						changed = true
					}
				}
				// phi uses along this edge
				pidx := -1
				for k, p := range s.Preds {
					if p == b {
						pidx = k
					}
				}
				for _, ins := range s.Instrs {
					phi, ok := ins.(*ssa.Phi)
					if !ok {
						break
					}
					if e := phi.Edges[pidx]; isReg(e) && !out[e] {
						out[e] = true
						changed = true
					}
				}
			}
			live := map[ssa.Value]bool{}
			for v := range out {
				live[v] = true
			}
			for k := len(b.Instrs) - 1; k >= 0; k-- {
				ins := b.Instrs[k]
				if v, ok := ins.(ssa.Value); ok {
					delete(live, v)
				}
				if _, isPhi := ins.(*ssa.Phi); isPhi {
					continue
				}
				instrUses(ins, func(u ssa.Value) { live[u] = true })
			}
			for v := range live {
				if !in[b][v] {
					in[b][v] = true
					changed = true
				}
			}
		}
	}
	liveCache[fn] = li
	return li
}

// liveBefore returns the registers live just before instruction idx of blk.
func liveBefore(fn *ssa.Function, blk *ssa.BasicBlock, idx int) map[ssa.Value]bool {
	li := liveness(fn)
	live := map[ssa.Value]bool{}
	for v := range li.out[blk] {
		live[v] = true
	}
	for k := len(blk.Instrs) - 1; k >= idx; k-- {
		ins := blk.Instrs[k]
		if v, ok := ins.(ssa.Value); ok {
			delete(live, v)
		}
		if _, isPhi := ins.(*ssa.Phi); isPhi {
			continue
		}
		instrUses(ins, func(u ssa.Value) { live[u] = true })
	}
	return live
}
