package interp

import (
	"fmt"
	"math"
	"sync"

	"verif.local/engine/smt"
	"verif.local/engine/term"
)

// Comparisons of the form  cmp(float64(x)/d, c)  (x a signed 64-bit integer,
// d and c constants) are monotone in x, so they are equivalent to an integer
// comparison  x <s t  or  x >=s t.  The threshold is computed natively by
// binary search and the equivalence is then PROVED by an SMT query over the
// floating-point theory (cvc5, once per distinct (cmp, d, c) and process);
// only a proved lemma is used as a rewrite. This is the "summarise a pure
// kernel with a solver-checked lemma" step: the per-path queries then stay in
// the bit-vector theory.

type fpLemma struct {
	kind   int // 0: always false, 1: always true, 2: x <s t, 3: x >=s t
	t      int64
	proved bool
}

var (
	fpMu     sync.Mutex
	fpLemmas = map[string]*fpLemma{}
	// FPLemmaLog records lemmas proved in this process (for evidence).
	FPLemmaLog []string
)

func fpEval(op term.Op, constLeft bool, x int64, d, c float64) bool {
	p := float64(x) / d
	a, b := p, c
	if constLeft {
		a, b = c, p
	}
	switch op {
	case term.OFLt:
		return a < b
	case term.OFLe:
		return a <= b
	}
	return a == b
}

// fpMonoRewrite returns an equivalent bit-vector condition, or nil.
func (m *Machine) fpMonoRewrite(op term.Op, a, b *term.T) *term.T {
	constLeft := false
	div, c := a, b
	if a.IsConst() {
		constLeft = true
		div, c = b, a
	}
	if !c.IsConst() || div.Op != term.OFDiv || !div.A[1].IsConst() || div.A[0].Op != term.OFFromSBV || div.S != term.F64 {
		return nil
	}
	x := div.A[0].A[0]
	if x.S.W != 64 || (op != term.OFLt && op != term.OFLe) {
		return nil
	}
	d := div.A[1].F
	key := fmt.Sprintf("%d|%v|%x|%x", op, constLeft, math.Float64bits(d), math.Float64bits(c.F))
	fpMu.Lock()
	defer fpMu.Unlock()
	lem, ok := fpLemmas[key]
	if !ok {
		lem = &fpLemma{}
		fpLemmas[key] = lem
		lo, hi := int64(math.MinInt64), int64(math.MaxInt64)
		glo, ghi := fpEval(op, constLeft, lo, d, c.F), fpEval(op, constLeft, hi, d, c.F)
		switch {
		case glo == ghi:
			if glo {
				lem.kind = 1
			}
		default:
			// find the least x with g(x) == ghi
			for lo+1 < hi {
				mid := lo/2 + hi/2 + (lo%2+hi%2)/2
				if fpEval(op, constLeft, mid, d, c.F) == ghi {
					hi = mid
				} else {
					lo = mid
				}
			}
			lem.t = hi
			if ghi {
				lem.kind = 3
			} else {
				lem.kind = 2
			}
		}
		lem.proved = proveFPLemma(op, constLeft, d, c.F, lem)
		FPLemmaLog = append(FPLemmaLog, fmt.Sprintf("cmp(op=%d,constLeft=%v) float64(x)/%g vs %g  <=>  kind=%d t=%d proved=%v", op, constLeft, d, c.F, lem.kind, lem.t, lem.proved))
	}
	if !lem.proved {
		return nil
	}
	f := m.F
	switch lem.kind {
	case 0:
		return f.False()
	case 1:
		return f.True()
	case 2:
		return f.SLt(x, f.BVC(64, uint64(lem.t)))
	}
	return f.SLe(f.BVC(64, uint64(lem.t)), x)
}

func proveFPLemma(op term.Op, constLeft bool, d, c float64, lem *fpLemma) bool {
	f := term.NewFactory()
	s, err := smt.New("cvc5", f, 120000)
	if err != nil {
		return false
	}
	defer s.Close()
	x := f.Var("x", term.BV(64))
	p := f.FDiv(f.FFromBV(term.F64, x, true), f.F64C(d))
	var fp *term.T
	a, b := p, f.F64C(c)
	if constLeft {
		a, b = b, a
	}
	if op == term.OFLt {
		fp = f.FLt(a, b)
	} else {
		fp = f.FLe(a, b)
	}
	var bv *term.T
	switch lem.kind {
	case 0:
		bv = f.False()
	case 1:
		bv = f.True()
	case 2:
		bv = f.SLt(x, f.BVC(64, uint64(lem.t)))
	default:
		bv = f.SLe(f.BVC(64, uint64(lem.t)), x)
	}
	r, err := s.CheckWith(false, f.Not(f.Eq(fp, bv)))
	return err == nil && r == smt.Unsat
}
