package interp

import (
	"fmt"
	"go/token"
	"go/types"
	"os"
	"sort"
	"strconv"
	"strings"

	"golang.org/x/tools/go/ssa"

	"verif.local/engine/smt"
	"verif.local/engine/term"
)

// ---------------------------------------------------------------------------
// Bounded model checking of goroutines and channels (DESIGN.md §4).
//
// The harness body is run sequentially (set-up). Every goroutine registered
// during set-up becomes a control-flow automaton: locations are call stacks
// standing at a visible operation, transitions are "one visible operation plus
// the local code up to the next one", extracted by running the same SSA
// interpreter from symbolic register/heap values. The product system is
// unrolled K steps; the schedule sch@k is a symbolic integer per step.
// ---------------------------------------------------------------------------

type BMCJob struct {
	Harness string
	Params  map[string]int
	Solver  string
	Timeout int
	K       int
	MaxK    int
	Verbose bool
}

type BMCResult struct {
	Configs         int
	K               int
	States          int
	Transitions     int
	TracesValidated int
	Witnesses       map[string]string
	Violations      []*Violation
	Unsupported     []string
	Unknown         []string
	Samples         []string
	Funcs           map[string]int
	Stubs           map[string]int
	Asserts         map[string]int
	Covers          map[string]int
	Complete        bool
}

type cellVar struct {
	v       *term.T
	obj     *Object
	init    *term.T
	written bool
	key     string
}

type bchan struct {
	c      *Chan
	length *term.T
	closed *term.T
	buf    [][]*term.T // slot -> leaves
	sorts  []term.Sort
	// timers
	deadline *term.T
}

type regSlot struct {
	reg  ssa.Value
	typ  types.Type
	vars []*term.T
}

type frameTpl struct {
	fn        *ssa.Function
	blk, prev *ssa.BasicBlock
	idx       int
	fixed     map[ssa.Value]Value
	slots     []regSlot
	free      []Value
	defers    []*deferred
	callInstr ssa.Value
	catch     bool
}

const (
	opStart = iota
	opTau
	opSend
	opRecv
	opSelect
	opClose
	opCancel
	opWgAdd
	opWgDone
	opWgWait
	opMuLock
	opMuUnlock
	opMuRLock
	opMuRUnlock
	opSleep
	opExit
	opTrySend
	opStep // a local instruction that is a step of its own: atomic operation, load/store of a racy cell
)

type arm struct {
	send bool
	ch   *Chan
	x    ssa.Value // value to send (register or constant)
}

type bloc struct {
	id      int
	proc    *bproc
	key     string
	frames  []*frameTpl
	kind    int
	arms    []arm // send/recv/select arms
	block   bool  // select is blocking
	commaOk bool
	instr   ssa.Instruction
	wgKey   string
	done    bool
	desc    string
}

type bproc struct {
	idx       int
	p         *Proc
	pc        *term.T
	start     *bloc
	exit      *bloc
	locs      []*bloc
	sleep     *term.T // wake-up deadline while at a Sleep location
	idle      *bloc   // spawned processes: not started yet
	spawnArgs []*term.T
}

type outcome struct {
	loc      *bloc
	name     string
	arm      int
	chanG    *term.T             // channel-state guard (over state vars)
	chanUpd  map[*term.T]*term.T // channel/wg/clock updates
	rv       bool                // rendezvous half (needs a partner)
	rvVals   []*term.T           // receiver half: placeholder leaves for the received value
	sendVals []*term.T           // sender half: leaves of the value sent (filled per path)
	panicMsg string
	paths    []*bpath
	chans    []*Chan
	clock    bool
}

type bpath struct {
	guard    *term.T
	upd      map[*term.T]*term.T
	dst      *bloc
	asserts  []assertRec
	covers   []string
	inputs   []*term.T
	reads    map[string]bool
	writes   map[string]bool
	sendVals []*term.T
	panicMsg string
	chans    []*Chan // channels touched by local code (none normally)
	choices  [][2]string
	wg       []string
}

type btrans struct {
	id       int
	procs    []*bproc
	src      []*bloc
	dst      []*bloc
	guard    *term.T
	upd      map[*term.T]*term.T
	asserts  []assertRec
	covers   []string
	inputs   []*term.T
	label    string
	panicMsg string
	chans    map[int]bool
	reads    map[string]bool
	writes   map[string]bool
	wgs      map[string]bool
	clock    bool
	env      bool
	choices  [][2]string
}

type bmcSys struct {
	job   *BMCJob
	f     *term.Factory
	s     *smt.Solver
	w     *World
	prog  *ssa.Program
	sizes types.Sizes
	setup *Machine
	r     *Results
	res   *BMCResult

	procs   []*bproc
	chans   map[*Chan]*bchan
	cells   map[string]*cellVar
	symHeap map[*Object]Value
	wgs     map[string]*term.T
	now     *term.T
	nowUsed bool
	clock   int // 0 none, 1 lax, 2 urgent

	stateVars []*term.T
	init      map[*term.T]*term.T
	panicVar  *term.T
	failVars  map[string]*term.T
	coverVars map[string]*term.T
	labels    []string

	locs     []*bloc
	outcomes []*outcome
	trans    []*btrans
	allocs   map[string]*Object
	racy     map[string]bool // cells accessed by several library goroutines, written after set-up: loads/stores are steps of their own
	finals   map[string]*term.T
	invars   map[string]*term.T
	quiesc   *term.T
	libExit  *term.T

	verbose      bool
	objSeq       int
	prunedHeap   map[*Object]Value
	constCells   map[*term.T]bool
	extractRound int
	spawned      map[string][]*bproc
	dynChans     map[string]*dynChan
	localSnaps   map[string]*Object
}

func (b *bmcSys) logf(format string, a ...interface{}) {
	if b.verbose {
		fmt.Fprintf(os.Stderr, format+"\n", a...)
	}
}

func (b *bmcSys) newState(name string, s term.Sort, init *term.T) *term.T {
	v := b.f.Var(name, s)
	if _, ok := b.init[v]; !ok {
		b.stateVars = append(b.stateVars, v)
	}
	b.init[v] = init
	return v
}

func zeroOfSort(f *term.Factory, s term.Sort) *term.T {
	switch s.K {
	case term.KBool:
		return f.False()
	case term.KBV:
		return f.BVC(s.W, 0)
	case term.KInt:
		return f.IntC(0)
	case term.KF32:
		return f.F32C(0)
	}
	return f.F64C(0)
}

// RunBMC explores every configuration (set-up path) of the harness.
func RunBMC(prog *ssa.Program, sizes typesSizes, fn *ssa.Function, job *BMCJob) (*BMCResult, *smt.Stats, error) {
	f := term.NewFactory()
	kind := job.Solver
	if kind == "" {
		kind = "z3new"
	}
	to := job.Timeout
	if to == 0 {
		to = 600000
	}
	s, err := smt.New(kind, f, to)
	if err != nil {
		return nil, nil, err
	}
	defer func() { s.Close() }()
	res := &BMCResult{Witnesses: map[string]string{}, Funcs: map[string]int{}, Stubs: map[string]int{}, Asserts: map[string]int{}, Covers: map[string]int{}}
	r := NewResults()
	var acc statsAcc
	work := [][]int{nil}
	constCache := map[*ssa.Const]Value{}
	for len(work) > 0 {
		prefix := work[len(work)-1]
		work = work[:len(work)-1]
		w := &World{Prog: prog, Sizes: sizes, Params: job.Params, WG: map[string]int64{}}
		m := newMachine(w, f, s, r, 500000)
		m.constCache = constCache
		m.prefix = prefix
		w.CtxCanceled = m.newModelError("context canceled") // (before object tracking: not a heap cell)
		m.trackObjs = true
		m.inSetup = true
		sys := &bmcSys{job: job, f: f, s: s, w: w, prog: prog, sizes: sizes, setup: m, r: r, res: res, verbose: job.Verbose,
			chans: map[*Chan]*bchan{}, cells: map[string]*cellVar{}, symHeap: map[*Object]Value{}, wgs: map[string]*term.T{},
			init: map[*term.T]*term.T{}, failVars: map[string]*term.T{}, coverVars: map[string]*term.T{}, allocs: map[string]*Object{},
			finals: map[string]*term.T{}, invars: map[string]*term.T{}}
		m.bmcHooks = sys.hooks()
		f.ResetFresh()
		s.Push()
		nv := len(r.Violations)
		ok := sys.runSetup(fn)
		work = append(work, m.pending...)
		res.Violations = append(res.Violations, r.Violations[nv:]...)
		for k, v := range r.AssertsHit {
			res.Asserts[k] += v
		}
		r.AssertsHit = map[string]int{}
		if ok {
			res.Configs++
			func() {
				defer func() {
					if x := recover(); x != nil {
						if u, is := x.(Unsupported); is {
							res.Unsupported = append(res.Unsupported, u.Msg)
							return
						}
						panic(x)
					}
				}()
				sys.check()
			}()
		}
		s.Pop()
		// a fresh solver per configuration keeps definitions from piling up
		acc.add(s.Stats)
		s.Close()
		if s, err = smt.New(kind, f, to); err != nil {
			return res, &acc.Stats, err
		}
		if len(res.Unsupported) > 5 {
			break
		}
	}
	res.Unsupported = append(res.Unsupported, r.Unsupported...)
	res.Unknown = append(res.Unknown, r.Unknown...)
	for fn, n := range r.FuncPtr {
		res.Funcs[fn.String()] += n
	}
	for k, v := range r.Stubs {
		res.Stubs[k] += v
	}
	acc.add(s.Stats)
	return res, &acc.Stats, nil
}

func (b *bmcSys) runSetup(fn *ssa.Function) (ok bool) {
	m := b.setup
	defer func() {
		if x := recover(); x != nil {
			switch e := x.(type) {
			case pathEnd:
				ok = false
			case goPanicSig:
				b.res.Violations = append(b.res.Violations, &Violation{Label: "setup-panic", Detail: e.msg})
				ok = false
			case Unsupported:
				b.res.Unsupported = append(b.res.Unsupported, "set-up: "+e.Msg+" @ "+m.where())
				ok = false
			default:
				panic(x)
			}
		}
	}()
	m.pushCall(fn, nil, nil, nil)
	m.run(0)
	m.inSetup = false
	return true
}

// ---------------------------------------------------------------------------
// hooks: visible operations, allocation, intrinsics
// ---------------------------------------------------------------------------

// muKind: sync.Mutex / sync.RWMutex operations are visible steps over two
// counters (writer flag under the mutex' key, readers under key+".r").
func muKind(name string) int {
	switch name {
	case "(*sync.Mutex).Lock", "(*sync.RWMutex).Lock":
		return opMuLock
	case "(*sync.Mutex).Unlock", "(*sync.RWMutex).Unlock":
		return opMuUnlock
	case "(*sync.RWMutex).RLock":
		return opMuRLock
	case "(*sync.RWMutex).RUnlock":
		return opMuRUnlock
	}
	return 0
}

func wgKeyOf(v Value) string {
	p, ok := v.(*PtrV)
	if !ok || p.Obj == nil {
		unsupported("WaitGroup receiver is not a plain pointer")
	}
	return cellKey(p.Obj, p.Path)
}

func (b *bmcSys) hooks() *bmcHooks {
	return &bmcHooks{
		visible: func(m *Machine, fr *Frame, instr ssa.Instruction) bool {
			switch in := instr.(type) {
			case *ssa.Send, *ssa.Select:
				return true
			case *ssa.UnOp:
				if in.Op == token.MUL && len(b.racy) > 0 {
					if p, ok := m.get(fr, in.X).(*PtrV); ok && p.Obj != nil && p.SymIdx == nil && b.racy[cellKey(p.Obj, p.Path)] {
						return true
					}
				}
				return in.Op == token.ARROW
			case *ssa.Store:
				if len(b.racy) > 0 {
					if p, ok := m.get(fr, in.Addr).(*PtrV); ok && p.Obj != nil && p.SymIdx == nil && b.racy[cellKey(p.Obj, p.Path)] {
						return true
					}
				}
			case *ssa.RunDefers:
				if n := len(fr.defers); n > 0 {
					if bi, ok := fr.defers[n-1].fn.(*ssa.Builtin); ok && bi.Name() == "close" {
						return true
					}
					if fv, ok := fr.defers[n-1].fn.(*FuncV); ok && fv != nil && fv.Fn == nil && fv.Builtin == "cancel" {
						return true
					}
					if fv, ok := fr.defers[n-1].fn.(*FuncV); ok && fv != nil && fv.Fn != nil {
						switch originOf(fv.Fn).String() {
						case "(*sync.WaitGroup).Done", "(*sync.WaitGroup).Wait", "(*sync.WaitGroup).Add":
							return true
						}
						if muKind(originOf(fv.Fn).String()) != 0 {
							return true
						}
					}
				}
			case *ssa.Call:
				c := in.Common()
				if c.IsInvoke() {
					return false
				}
				if bi, ok := c.Value.(*ssa.Builtin); ok {
					return bi.Name() == "close"
				}
				if callee := c.StaticCallee(); callee != nil {
					switch originOf(callee).String() {
					case "(*sync.WaitGroup).Add", "(*sync.WaitGroup).Done", "(*sync.WaitGroup).Wait", "time.Sleep", "verif.local/vrt.TrySend", "verif.local/vrt.Sleep":
						return true
					}
					if muKind(originOf(callee).String()) != 0 {
						return true
					}
					return isAtomicModel(originOf(callee).String())
				}
				if fv, ok := m.get(fr, c.Value).(*FuncV); ok && fv != nil && fv.Fn == nil && fv.Builtin == "cancel" {
					return true
				}
			}
			return false
		},
		alloc: func(m *Machine, fr *Frame, in *ssa.Alloc, et typesType) *Object {
			// a static cell per (process, allocation site): the previous incarnation
			// must be dead when the site is executed again
			for _, ar := range b.w.Arenas {
				if types.Identical(ar.T, et) && strings.Contains(fr.fn.String(), ar.Fn) {
					return nil // signalled to the caller: allocate from the arena
				}
			}
			if !b.regFlat(et) || m.curProc == nil {
				// not a pure scalar cell: a goroutine-local temporary (must be dead at
				// the next visible operation; capture() rejects live pointers to it)
				lo := m.newObject(et, m.zero(et), "local:"+in.Comment)
				b.objSeq++
				lo.ID = 3000000 + b.objSeq // unique across path machines and goroutines
				lo.Ghost = true            // goroutine-local: never shared
				return lo
			}
			key := fmt.Sprintf("p%d.%s.%d.%d", m.curProc.idx(b), fr.fn.String(), in.Block().Index, instrIndex(in))
			o, ok := b.allocs[key]
			if !ok {
				o = m.newObject(et, m.zero(et), "alloc:"+key)
				b.objSeq++
				o.ID = 1000000 + b.objSeq // unique across the path machines
				o.Setup = true
				b.allocs[key] = o
				b.symbolizeObject(m, o)
			}
			m.overlay[o] = m.zero(et)
			m.noteWrite(o, nil)
			return o
		},
		intrinsic: func(m *Machine, name string, fn *ssa.Function, args []Value) *modelRes {
			return b.intrinsic(m, name, fn, args)
		},
		spawn: func(m *Machine, fr *Frame, in *ssa.Go, f *FuncV, args []Value) {
			b.spawn(m, fr, in, f, args)
		},
		makeChan: func(m *Machine, cap int, et types.Type, name string) *Chan {
			return b.makeChan(m, cap, et, name)
		},
	}
}

// spawn handles a `go` statement executed by a running goroutine. The children
// of one spawn site (per parent and per shape of the closure/arguments) are
// processes of their own that exist from the beginning in an "idle" location;
// the spawning transition starts the first instance that is idle or has exited
// (its state is dead then). There are `spawn` instances per site (parameter,
// default 1); needing more is a model limit (the job is run again with more).
func (b *bmcSys) spawn(m *Machine, fr *Frame, in *ssa.Go, fv *FuncV, args []Value) {
	f := b.f
	parent := m.curProc.idx(b)
	site := fmt.Sprintf("spawn.p%d.%s.%d.%d", parent, fr.fn.String(), in.Block().Index, instrIndex(in))
	id := fmt.Sprintf("%p", fv.Fn)
	for _, x := range fv.Free {
		id += "," + spawnShape(m, x, 0)
	}
	for _, a := range args {
		id += "," + spawnShape(m, a, 0)
	}
	key := site + "|" + id
	kids := b.spawned[key]
	if kids == nil {
		n := 1
		if v, ok := b.job.Params["spawn"]; ok && v > 0 {
			n = v
		}
		for k := 0; k < n; k++ {
			p := &Proc{Name: fmt.Sprintf("%s#s%d", fv.Fn.Name(), len(b.procs)), Lib: m.curProc.Lib}
			child := &bproc{idx: len(b.procs), p: p}
			// scalar arguments and captured values are copied into state variables of the
			// child at the spawning transition (the parent's registers change afterwards);
			// goroutine-local cells of the parent that the child captures are frozen
			cx := &spawnCtx{b: b, m: m, child: child, seen: map[*Object]*Object{}}
			cf := *fv
			cf.Free = nil
			for _, x := range fv.Free {
				cf.Free = append(cf.Free, cx.copy(x))
			}
			p.Fn = &cf
			for _, a := range args {
				p.Args = append(p.Args, cx.copy(a))
			}
			child.start = &bloc{id: len(b.locs), proc: child, kind: opStart, key: "start", desc: "start"}
			b.locs = append(b.locs, child.start)
			child.exit = &bloc{id: len(b.locs), proc: child, kind: opExit, key: "exit", desc: "exit", done: true}
			b.locs = append(b.locs, child.exit)
			child.idle = &bloc{id: len(b.locs), proc: child, kind: opExit, key: "idle", desc: "idle (not started yet)", done: true}
			b.locs = append(b.locs, child.idle)
			child.locs = []*bloc{child.start, child.exit, child.idle}
			child.pc = b.newState(fmt.Sprintf("pc.p%d", child.idx), term.Int, f.IntC(int64(child.idle.id)))
			b.procs = append(b.procs, child)
			kids = append(kids, child)
		}
		if b.spawned == nil {
			b.spawned = map[string][]*bproc{}
		}
		b.spawned[key] = kids
	}
	cur := func(v *term.T) *term.T {
		if u, ok := m.pathUpd[v]; ok {
			return u
		}
		return v
	}
	taken := f.False() // an earlier instance is free
	for _, child := range kids {
		pc := cur(child.pc)
		free := f.Or(f.Eq(pc, f.IntC(int64(child.idle.id))), f.Eq(pc, f.IntC(int64(child.exit.id))))
		sel := f.And(free, f.Not(taken))
		taken = f.Or(taken, free)
		m.pathUpd[child.pc] = f.Ite(sel, f.IntC(int64(child.start.id)), pc)
		cx := &spawnCtx{b: b, m: m, child: child, seen: map[*Object]*Object{}, bind: true, sel: sel}
		for _, x := range fv.Free {
			cx.copy(x)
		}
		for _, a := range args {
			cx.copy(a)
		}
	}
	m.asserts = append(m.asserts, assertRec{label: modelLimit + "spawn (more live goroutines of one go statement than the " + strconv.Itoa(len(kids)) + " modelled)", cond: taken})
}

// makeChan: a channel made by a running goroutine is one channel per process
// and call-stack site; the site may run once (a second execution while the
// first channel may still be in use is a model limit).
func (b *bmcSys) makeChan(m *Machine, cap int, et types.Type, name string) *Chan {
	var sb strings.Builder
	fmt.Fprintf(&sb, "p%d", m.curProc.idx(b))
	for _, fr := range m.stack {
		fmt.Fprintf(&sb, "/%s.%d.%d", fr.fn.String(), fr.blk.Index, fr.idx)
	}
	key := sb.String()
	dc := b.dynChans[key]
	if dc == nil {
		c := &Chan{ID: len(m.W.Chans), Cap: cap, ElemT: et, Name: name}
		m.W.Chans = append(m.W.Chans, c)
		dc = &dynChan{c: c, made: b.newState(fmt.Sprintf("made.ch%d", c.ID), term.Bool, b.f.False())}
		if b.dynChans == nil {
			b.dynChans = map[string]*dynChan{}
		}
		b.dynChans[key] = dc
		b.chanState(c)
	}
	if dc.c.Cap != cap {
		unsupported("a make(chan) site with varying capacity")
	}
	cur := dc.made
	if u, ok := m.pathUpd[dc.made]; ok {
		cur = u
	}
	m.asserts = append(m.asserts, assertRec{label: modelLimit + "a goroutine executes one make(chan) more than once", cond: b.f.Not(cur)})
	m.pathUpd[dc.made] = b.f.True()
	return dc.c
}

type dynChan struct {
	c    *Chan
	made *term.T
}

// modelLimit prefixes assertions about the limits of the model itself: when one
// can fail the job is inconclusive (never a violation of the property).
const modelLimit = "model-limit: "

// spawnShape identifies a value handed to a spawned goroutine up to its
// non-constant scalars (those are copied into the child's own state variables).
func spawnShape(m *Machine, v Value, depth int) string {
	if depth > 8 {
		unsupported("deeply linked goroutine-local objects handed to a spawned goroutine")
	}
	switch x := v.(type) {
	case *term.T:
		if !x.IsConst() {
			return fmt.Sprintf("t:%v", x.S)
		}
	case *StructV:
		r := "{"
		for _, e := range x.F {
			r += spawnShape(m, e, depth) + ","
		}
		return r + "}"
	case *ArrayV:
		r := "["
		for _, e := range x.E {
			r += spawnShape(m, e, depth) + ","
		}
		return r + "]"
	case *FuncV:
		if x != nil && x.Fn != nil {
			r := fmt.Sprintf("f:%p(", x.Fn)
			for _, e := range x.Free {
				r += spawnShape(m, e, depth) + ","
			}
			return r + ")"
		}
	case *PtrV:
		if isLocalPtr(x) {
			return fmt.Sprintf("L%v{%s}", x.Path, spawnShape(m, m.objVal(x.Obj), depth+1))
		}
	}
	return valueID(v)
}

func isLocalPtr(x *PtrV) bool {
	return x != nil && x.Arena == nil && x.Obj != nil && strings.HasPrefix(x.Obj.Name, "local:")
}

// spawnCtx walks the values handed to a spawned goroutine. In copy mode it
// builds the child's view (state variables for non-constant scalars, frozen
// copies of captured goroutine-local cells); in bind mode (same traversal) it
// makes the spawning transition assign those state variables.
type spawnCtx struct {
	b     *bmcSys
	m     *Machine
	child *bproc
	seen  map[*Object]*Object
	n     int
	bind  bool
	sel   *term.T
}

func (cx *spawnCtx) copy(v Value) Value {
	b := cx.b
	switch x := v.(type) {
	case *term.T:
		if x.IsConst() {
			return x
		}
		if cx.bind {
			if cx.n >= len(cx.child.spawnArgs) || cx.child.spawnArgs[cx.n].S != x.S {
				unsupported("goroutines of one go statement with differently shaped arguments")
			}
			sv := cx.child.spawnArgs[cx.n]
			old := sv
			if u, ok := cx.m.pathUpd[sv]; ok {
				old = u
			}
			cx.m.pathUpd[sv] = b.f.Ite(cx.sel, x, old)
			cx.n++
			return x
		}
		sv := b.newState(fmt.Sprintf("spawnarg.p%d.%d", cx.child.idx, cx.n), x.S, zeroOfSort(b.f, x.S))
		cx.child.spawnArgs = append(cx.child.spawnArgs, sv)
		cx.n++
		return sv
	case *StructV:
		r := &StructV{}
		for _, e := range x.F {
			r.F = append(r.F, cx.copy(e))
		}
		return r
	case *ArrayV:
		r := &ArrayV{}
		for _, e := range x.E {
			r.E = append(r.E, cx.copy(e))
		}
		return r
	case *FuncV:
		if x == nil || x.Fn == nil {
			return v
		}
		cf := *x
		cf.Free = nil
		for _, e := range x.Free {
			cf.Free = append(cf.Free, cx.copy(e))
		}
		return &cf
	case *PtrV:
		if x != nil && x.Arena != nil && x.Idx != nil && !x.Idx.IsConst() {
			unsupported("a symbolic arena pointer handed to a spawned goroutine")
		}
		if !isLocalPtr(x) {
			return v
		}
		// a goroutine-local cell of the parent captured by the child: the child gets a
		// frozen copy; neither side may write it afterwards (checked in store)
		cx.m.escaped[x.Obj] = true
		fo, ok := cx.seen[x.Obj]
		if !ok {
			fo = &Object{T: x.Obj.T, Name: fmt.Sprintf("frozen:p%d.%d", cx.child.idx, len(cx.seen)), Frozen: true, Setup: true}
			b.objSeq++
			fo.ID = 5000000 + b.objSeq
			cx.seen[x.Obj] = fo
			fo.Val = cx.copy(cx.m.objVal(x.Obj))
		}
		return &PtrV{Obj: fo, Path: x.Path}
	case *IfaceV:
		if x != nil && x.Tag != nil {
			unsupported("a symbolic interface handed to a spawned goroutine")
		}
		if x != nil && x.Dyn != nil {
			c := *x
			c.V = cx.copy(x.V)
			return &c
		}
		return v
	case *SliceV:
		if x != nil && x.Obj != nil && strings.HasPrefix(x.Obj.Name, "local:") {
			unsupported("a goroutine-local slice handed to a spawned goroutine")
		}
		return v
	}
	return v
}

func instrIndex(in ssa.Instruction) int {
	for i, x := range in.Block().Instrs {
		if x == in {
			return i
		}
	}
	return -1
}

func (p *Proc) idx(b *bmcSys) int {
	for _, bp := range b.procs {
		if bp.p == p {
			return bp.idx
		}
	}
	return -1
}

func (b *bmcSys) intrinsic(m *Machine, name string, fn *ssa.Function, args []Value) *modelRes {
	f := b.f
	switch name {
	case "(*sync.WaitGroup).Add":
		if m.procMode {
			unsupported("internal: WaitGroup.Add reached sequentially in process mode")
		}
		k := wgKeyOf(args[0])
		b.w.WG[k] += int64(m.constInt(args[1]))
		return &modelRes{}
	case "(*sync.WaitGroup).Done", "(*sync.WaitGroup).Wait":
		if !m.procMode {
			k := wgKeyOf(args[0])
			if name == "(*sync.WaitGroup).Done" {
				b.w.WG[k]--
				return &modelRes{}
			}
			if b.w.WG[k] != 0 {
				unsupported("WaitGroup.Wait would block during set-up")
			}
			return &modelRes{}
		}
		unsupported("internal: %s reached sequentially in process mode", name)
	case "(*sync.Mutex).Lock", "(*sync.RWMutex).Lock", "(*sync.Mutex).Unlock", "(*sync.RWMutex).Unlock", "(*sync.RWMutex).RLock", "(*sync.RWMutex).RUnlock":
		if m.procMode {
			unsupported("internal: %s reached sequentially in process mode", name)
		}
		k := wgKeyOf(args[0])
		switch muKind(name) {
		case opMuLock:
			if b.w.WG[k] != 0 || b.w.WG[k+".r"] != 0 {
				unsupported("Mutex.Lock would block during set-up")
			}
			b.w.WG[k] = 1
		case opMuUnlock:
			if b.w.WG[k] == 0 {
				m.goPanic("sync: unlock of unlocked mutex")
			}
			b.w.WG[k] = 0
		case opMuRLock:
			if b.w.WG[k] != 0 {
				unsupported("RWMutex.RLock would block during set-up")
			}
			b.w.WG[k+".r"]++
		case opMuRUnlock:
			if b.w.WG[k+".r"] == 0 {
				m.goPanic("sync: RUnlock of unlocked RWMutex")
			}
			b.w.WG[k+".r"]--
		}
		return &modelRes{}
	case "time.After":
		d := args[0].(*term.T)
		// a timer object per call site and process
		key := fmt.Sprintf("timer.p%d.%s", m.curProc.idx(b), m.where())
		var tc *Chan
		for _, c := range b.w.Timers {
			if c.Name == key {
				tc = c
			}
		}
		if tc == nil {
			tc = &Chan{ID: len(b.w.Chans), Cap: 1, ElemT: types.NewStruct(nil, nil), Name: key}
			b.w.Chans = append(b.w.Chans, tc)
			b.w.Timers = append(b.w.Timers, tc)
			bc := b.chanState(tc)
			bc.deadline = b.newState("timer."+fmt.Sprint(tc.ID)+".deadline", term.BV(clockW), f.BVC(clockW, 0))
		}
		bc := b.chanState(tc)
		b.nowUsed = true
		if m.pathUpd == nil {
			unsupported("time.After outside a goroutine")
		}
		m.pathUpd[bc.deadline] = f.Add(b.now, b.dur(d))
		return &modelRes{v: &ChanV{C: tc}}
	case "verif.local/vrt.Closed":
		c := args[0].(*IfaceV).V.(*ChanV)
		if c.C == nil {
			return &modelRes{v: f.False()}
		}
		return &modelRes{v: b.chanState(c.C).closed}
	case "verif.local/vrt.ChanLen":
		c := args[0].(*IfaceV).V.(*ChanV)
		if c.C == nil {
			return &modelRes{v: f.BVC(64, 0)}
		}
		// 0 <= len <= cap: an ite chain over the possible lengths instead of int2bv
		// (which z3 handles very poorly inside arithmetic)
		ln := b.chanState(c.C).length
		if ln.IsConst() {
			return &modelRes{v: b.intToBV(ln)}
		}
		r := f.BVC(64, uint64(c.C.Cap))
		for i := c.C.Cap - 1; i >= 0; i-- {
			r = f.Ite(f.Eq(ln, f.IntC(int64(i))), f.BVC(64, uint64(i)), r)
		}
		return &modelRes{v: r}
	case "verif.local/vrt.LibExited":
		return &modelRes{v: b.libExited()}
	case "verif.local/vrt.AllLibExited":
		cs := []*term.T{}
		for _, p := range b.procs {
			if p.p.Lib {
				gone := f.Eq(p.pc, f.IntC(int64(p.exit.id)))
				if p.idle != nil {
					gone = f.Or(gone, f.Eq(p.pc, f.IntC(int64(p.idle.id))))
				}
				cs = append(cs, gone)
			}
		}
		return &modelRes{v: f.And(cs...)}
	case "verif.local/vrt.Exited":
		nm := constStr(args[0])
		cs := []*term.T{}
		found := false
		for _, p := range b.procs {
			if p.p.Name == nm || strings.HasPrefix(p.p.Name, nm+"#") {
				cs = append(cs, f.Eq(p.pc, f.IntC(int64(p.exit.id))))
				found = true
			}
		}
		if !found {
			unsupported("vrt.Exited: no process named %q", nm)
		}
		return &modelRes{v: f.And(cs...)}
	case "verif.local/vrt.Now":
		b.nowUsed = true
		return &modelRes{v: f.ZExt(64, b.now)}
	case "verif.local/vrt.Daemon":
		nm := constStr(args[0])
		for _, p := range m.procs {
			if strings.HasPrefix(p.Name, nm) {
				p.Daemon = true
			}
		}
		return &modelRes{}
	}
	unsupported("BMC intrinsic %s", name)
	return nil
}

// The virtual clock is a narrow bit-vector (durations in the harnesses are
// small constants; ticks are bounded so that it cannot wrap within K steps).
const clockW = 40

// maxDur: durations are saturated here ("a long time"); a tick is at most twice
// that, so that every timer can expire, and K*2*maxDur stays below 2^40.
const maxDur = 1 << 30

func (b *bmcSys) dur(d *term.T) *term.T {
	f := b.f
	if d.IsConst() {
		v := term.SignedVal(d)
		if v < 0 {
			v = 0
		}
		if v > maxDur {
			v = maxDur
		}
		return f.BVC(clockW, uint64(v))
	}
	// symbolic duration: saturate as well
	x := d
	if x.S.W > clockW {
		big := f.Not(f.Eq(f.Extract(x.S.W-1, clockW-1, x), f.BVC(x.S.W-clockW+1, 0)))
		x = f.Extract(clockW-1, 0, x)
		return f.Ite(f.Or(big, f.ULt(f.BVC(clockW, maxDur), x)), f.BVC(clockW, maxDur), x)
	}
	x = f.ZExt(clockW, x)
	return f.Ite(f.ULt(f.BVC(clockW, maxDur), x), f.BVC(clockW, maxDur), x)
}

// durations and BMC integers: the clock is a mathematical integer; Go values are bit-vectors
func (b *bmcSys) durToInt(d *term.T) *term.T {
	if d.IsConst() {
		return b.f.IntC(term.SignedVal(d))
	}
	return b.f.BV2Int(d)
}

func (b *bmcSys) intToBV(i *term.T) *term.T {
	if i.IsConst() {
		return b.f.BVC(64, uint64(i.I))
	}
	// Int -> BV64 through an auxiliary definition: ite-chain is avoided by
	// keeping BMC integers small; use int2bv
	return b.f.Int2BV(64, i)
}

func (b *bmcSys) libExited() *term.T {
	cs := []*term.T{}
	for _, p := range b.procs {
		if p.p.Lib && !p.p.Daemon {
			gone := b.f.Eq(p.pc, b.f.IntC(int64(p.exit.id)))
			if p.idle != nil {
				gone = b.f.Or(gone, b.f.Eq(p.pc, b.f.IntC(int64(p.idle.id))))
			}
			cs = append(cs, gone)
		}
	}
	return b.f.And(cs...)
}

// ---------------------------------------------------------------------------
// state: channels, heap cells
// ---------------------------------------------------------------------------

func (b *bmcSys) chanState(c *Chan) *bchan {
	if bc, ok := b.chans[c]; ok {
		return bc
	}
	f := b.f
	bc := &bchan{c: c}
	name := fmt.Sprintf("ch%d", c.ID)
	bc.sorts = b.setup.leafSorts(c.ElemT, nil)
	initLen := int64(len(c.Buf))
	bc.length = b.newState(name+".len", term.Int, f.IntC(initLen))
	bc.closed = b.newState(name+".closed", term.Bool, f.BoolC(c.Closed))
	for i := 0; i < c.Cap; i++ {
		var leaves []*term.T
		var initLeaves []*term.T
		if i < len(c.Buf) {
			initLeaves = b.setup.flatten(c.Buf[i], c.ElemT, nil)
		}
		for k, so := range bc.sorts {
			iv := zeroOfSort(f, so)
			if initLeaves != nil {
				iv = initLeaves[k]
			}
			leaves = append(leaves, b.newState(fmt.Sprintf("%s.buf%d.%d", name, i, k), so, iv))
		}
		bc.buf = append(bc.buf, leaves)
	}
	b.chans[c] = bc
	return bc
}

func isErrorType(t types.Type) bool {
	n, ok := types.Unalias(t).(*types.Named)
	return ok && n.Obj().Pkg() == nil && n.Obj().Name() == "error"
}

// regFlat reports whether a register/cell of this type is kept as state variables.
func (b *bmcSys) regFlat(t types.Type) bool {
	switch u := under(t).(type) {
	case *types.Basic:
		if _, _, ok := intBits(t); ok {
			return true
		}
		if _, ok := isFloat(t); ok {
			return true
		}
		return isBool(t)
	case *types.Struct:
		for i := 0; i < u.NumFields(); i++ {
			if !b.regFlat(u.Field(i).Type()) {
				return false
			}
		}
		return true
	case *types.Array:
		return b.regFlat(u.Elem())
	case *types.Interface:
		return isErrorType(t)
	case *types.Pointer:
		return b.w.arenaFor(u.Elem()) != nil
	}
	return false
}

// symbolizeObject registers state variables for every flat leaf of a set-up object.
func (b *bmcSys) symbolizeObject(m *Machine, o *Object) {
	if _, ok := b.symHeap[o]; ok {
		return
	}
	b.symHeap[o] = b.symbolize(m, o, o.Val, o.T, nil)
}

func (b *bmcSys) symbolize(m *Machine, o *Object, v Value, t types.Type, path []int) Value {
	if b.regFlat(t) {
		if _, isIface := under(t).(*types.Interface); isIface {
			iv := v.(*IfaceV)
			// keep non-scalar payloads concrete
			ok := true
			func() {
				defer func() {
					if r := recover(); r != nil {
						if _, is := r.(Unsupported); is {
							ok = false
							return
						}
						panic(r)
					}
				}()
				m.ifaceFlat(iv)
			}()
			if !ok {
				return v
			}
		}
		leaves, okf := tryFlatten(m, v, t)
		if !okf {
			return v
		}
		sorts := m.leafSorts(t, nil)
		vars := make([]*term.T, len(leaves))
		for k := range leaves {
			key := fmt.Sprintf("%s#%d", cellKey(o, path), k)
			cv := &cellVar{obj: o, init: leaves[k], key: cellKey(o, path)}
			cv.v = b.newState("c."+key, sorts[k], leaves[k])
			b.cells[cv.v.Name] = cv
			vars[k] = cv.v
		}
		pos := 0
		return m.unflatten(t, vars, &pos)
	}
	switch u := under(t).(type) {
	case *types.Struct:
		sv, ok := v.(*StructV)
		if !ok {
			return v
		}
		out := &StructV{F: make([]Value, len(sv.F))}
		for i := range sv.F {
			out.F[i] = b.symbolize(m, o, sv.F[i], u.Field(i).Type(), append(append([]int(nil), path...), i))
		}
		return out
	case *types.Array:
		av, ok := v.(*ArrayV)
		if !ok {
			return v
		}
		out := &ArrayV{E: make([]Value, len(av.E))}
		for i := range av.E {
			out.E[i] = b.symbolize(m, o, av.E[i], u.Elem(), append(append([]int(nil), path...), i))
		}
		return out
	}
	return v
}

// diffObject turns the overlay value of an object into cell updates.
func (b *bmcSys) diffObject(m *Machine, o *Object, nv Value, base Value, t types.Type, path []int, upd map[*term.T]*term.T) {
	if b.regFlat(t) {
		bl, okb := tryFlatten(m, base, t)
		if okb && len(bl) > 0 && bl[0].Op == term.OVar && b.cells[bl[0].Name] != nil {
			nl := m.flatten(nv, t, nil)
			for k := range bl {
				if nl[k] != bl[k] {
					upd[bl[k]] = nl[k]
					b.cells[bl[k].Name].written = true
				}
			}
			return
		}
	}
	switch u := under(t).(type) {
	case *types.Struct:
		ns, ok1 := nv.(*StructV)
		bs, ok2 := base.(*StructV)
		if ok1 && ok2 {
			for i := range ns.F {
				if ns.F[i] != bs.F[i] {
					b.diffObject(m, o, ns.F[i], bs.F[i], u.Field(i).Type(), append(append([]int(nil), path...), i), upd)
				}
			}
			return
		}
	case *types.Array:
		na, ok1 := nv.(*ArrayV)
		ba, ok2 := base.(*ArrayV)
		if ok1 && ok2 {
			for i := range na.E {
				if na.E[i] != ba.E[i] {
					b.diffObject(m, o, na.E[i], ba.E[i], u.Elem(), append(append([]int(nil), path...), i), upd)
				}
			}
			return
		}
	}
	if valueID(nv) != valueID(base) {
		unsupported("a goroutine stores a non-scalar value into shared cell %s%v (%s)", o.Name, path, t)
	}
}

func tryFlatten(m *Machine, v Value, t types.Type) (ls []*term.T, ok bool) {
	defer func() {
		if r := recover(); r != nil {
			if _, is := r.(Unsupported); is {
				ok = false
				return
			}
			panic(r)
		}
	}()
	return m.flatten(v, t, nil), true
}

// valueID is the identity of a non-scalar value (part of a location's key).
func valueID(v Value) string {
	switch x := v.(type) {
	case nil:
		return "nil"
	case *term.T:
		if x.IsConst() {
			return fmt.Sprintf("k%d", x.ID)
		}
		return fmt.Sprintf("t%d", x.ID)
	case string:
		return "s:" + x
	case *PtrV:
		if x.IsNil() {
			return "p:nil"
		}
		if x.Arena != nil {
			return fmt.Sprintf("pa:%s:%d", x.Arena.Name, x.Idx.ID)
		}
		if strings.HasPrefix(x.Obj.Name, "local:") && !x.Obj.Snap {
			unsupported("a pointer to a goroutine-local non-scalar object (%s) is live across a visible operation", x.Obj.T)
		}
		return "p:" + cellKey(x.Obj, x.Path)
	case *FuncV:
		if x == nil {
			return "f:nil"
		}
		var sb strings.Builder
		if x.Fn != nil {
			fmt.Fprintf(&sb, "f:%p", x.Fn)
		} else {
			fmt.Fprintf(&sb, "fb:%s:%s", x.Builtin, valueID(x.Data))
		}
		for _, fv := range x.Free {
			sb.WriteString("," + valueID(fv))
		}
		return sb.String()
	case *ChanV:
		if x.C == nil {
			return "c:nil"
		}
		return fmt.Sprintf("c:%d", x.C.ID)
	case *IfaceV:
		if x.Tag != nil {
			return fmt.Sprintf("i:sym:%d:%d", x.Tag.ID, x.Pay.ID)
		}
		if x.Dyn == nil {
			return "i:nil"
		}
		return "i:" + x.Dyn.String() + ":" + valueID(x.V)
	case *SliceV:
		if x.Obj == nil {
			return "sl:nil"
		}
		return fmt.Sprintf("sl:%d:%d:%d:%d", x.Obj.ID, x.Off, x.Len, x.Cap)
	case *StructV:
		var ps []string
		for _, e := range x.F {
			ps = append(ps, valueID(e))
		}
		return "{" + strings.Join(ps, ",") + "}"
	case *ArrayV:
		var ps []string
		for _, e := range x.E {
			ps = append(ps, valueID(e))
		}
		return "[" + strings.Join(ps, ",") + "]"
	case TupleV:
		var ps []string
		for _, e := range x {
			ps = append(ps, valueID(e))
		}
		return "(" + strings.Join(ps, ",") + ")"
	case *ModelV:
		return fmt.Sprintf("m:%p", x)
	case *MapV:
		return fmt.Sprintf("map:%p", x.M)
	case *RTypeV:
		return "rt:" + x.T.String()
	case *ssa.Builtin:
		return "b:" + x.Name()
	case *AddrV:
		return fmt.Sprintf("a:%v:%d", x.Path, x.Off)
	case *SymStr:
		return fmt.Sprintf("ss:%d", x.Len.ID)
	}
	return fmt.Sprintf("?%T", v)
}

// ---------------------------------------------------------------------------
// locations
// ---------------------------------------------------------------------------

func regName(v ssa.Value) string {
	if p, ok := v.(*ssa.Parameter); ok {
		return "arg." + p.Name()
	}
	return v.Name()
}

// capture interns the location the machine stands at and returns it together
// with the values of its state registers (to become updates of the arriving
// transition).
func (b *bmcSys) capture(m *Machine, p *bproc) (*bloc, map[*term.T]*term.T) {
	upd := map[*term.T]*term.T{}
	if len(m.stack) == 0 {
		return p.exit, upd
	}
	var key strings.Builder
	var tpls []*frameTpl
	rl := &relocator{b: b, m: m, seen: map[*Object]*Object{}}
	for d, fr := range m.stack {
		idx := fr.idx
		live := liveBefore(fr.fn, fr.blk, idx)
		if d < len(m.stack)-1 {
			// suspended at a call: idx already points behind it
		}
		tpl := &frameTpl{fn: fr.fn, blk: fr.blk, prev: fr.prev, idx: idx, fixed: map[ssa.Value]Value{}, callInstr: fr.callInstr, catch: fr.catch}
		for _, fv := range fr.free {
			tpl.free = append(tpl.free, rl.reloc(fv, 0))
		}
		tpl.defers = append(tpl.defers, fr.defers...)
		fmt.Fprintf(&key, "|%p.%d.%d", fr.fn, fr.blk.Index, idx)
		var regs []ssa.Value
		for v := range live {
			if _, ok := fr.regs[v]; ok {
				regs = append(regs, v)
			}
		}
		sort.Slice(regs, func(i, j int) bool { return regName(regs[i]) < regName(regs[j]) })
		for _, v := range regs {
			val := fr.regs[v]
			if b.regFlat(v.Type()) {
				if leaves, ok := tryFlatten(m, val, v.Type()); ok {
					sorts := m.leafSorts(v.Type(), nil)
					slot := regSlot{reg: v, typ: v.Type()}
					for k := range leaves {
						name := fmt.Sprintf("r.p%d.d%d.%s.%s.%d", p.idx, d, shortFn(fr.fn), regName(v), k)
						sv := b.newStateKeep(name, sorts[k])
						slot.vars = append(slot.vars, sv)
						upd[sv] = leaves[k]
					}
					tpl.slots = append(tpl.slots, slot)
					fmt.Fprintf(&key, ";%s=S", regName(v))
					continue
				}
			}
			val = rl.reloc(val, 0)
			tpl.fixed[v] = val
			fmt.Fprintf(&key, ";%s=%s", regName(v), valueID(val))
		}
		for _, fv := range tpl.free {
			fmt.Fprintf(&key, ";fv=%s", valueID(fv))
		}
		for _, df := range fr.defers {
			fmt.Fprintf(&key, ";defer=%s", valueID(df.fn))
			for _, a := range df.args {
				fmt.Fprintf(&key, ",%s", valueID(a))
			}
		}
		tpls = append(tpls, tpl)
	}
	if m.cut {
		key.WriteString("|cut")
	}
	k := key.String()
	for _, l := range p.locs {
		if l.key == k {
			return l, upd
		}
	}
	l := &bloc{id: len(b.locs), proc: p, key: k, frames: tpls}
	b.locs = append(b.locs, l)
	p.locs = append(p.locs, l)
	b.classify(m, l)
	return l, upd
}

// relocator: goroutine-local non-scalar cells (a captured ctx, a channel
// variable, ...) that are live across a visible operation become part of the
// location: the registers of the location point to a canonical snapshot object
// holding the cell's (non-symbolic) content; the same content at the same place
// gives the same location. Paths starting there write through their overlay.
type relocator struct {
	b    *bmcSys
	m    *Machine
	seen map[*Object]*Object
}

func (rl *relocator) reloc(v Value, depth int) Value {
	if depth > 8 {
		unsupported("deeply linked goroutine-local objects live across a visible operation")
	}
	switch x := v.(type) {
	case *PtrV:
		if !isLocalPtr(x) {
			return v
		}
		so, ok := rl.seen[x.Obj]
		if !ok {
			ord := len(rl.seen)
			rl.seen[x.Obj] = nil // reserve the ordinal (cycles are not supported)
			content := rl.reloc(rl.m.objVal(x.Obj), depth+1)
			if hasSymbolicLeaf(content) {
				unsupported("a goroutine-local non-scalar object (%s) with symbolic content is live across a visible operation", x.Obj.T)
			}
			k := fmt.Sprintf("%d:%s:%s", ord, x.Obj.T, valueID(content))
			so = rl.b.localSnaps[k]
			if so == nil {
				so = &Object{T: x.Obj.T, Val: content, Name: "local:snap", Ghost: true, Snap: true}
				rl.b.objSeq++
				so.ID = 7000000 + rl.b.objSeq
				if rl.b.localSnaps == nil {
					rl.b.localSnaps = map[string]*Object{}
				}
				rl.b.localSnaps[k] = so
			}
			rl.seen[x.Obj] = so
		}
		if so == nil {
			unsupported("cyclic goroutine-local objects live across a visible operation")
		}
		return &PtrV{Obj: so, Path: x.Path}
	case *StructV:
		r := &StructV{F: make([]Value, len(x.F))}
		ch := false
		for i, e := range x.F {
			r.F[i] = rl.reloc(e, depth)
			ch = ch || r.F[i] != e
		}
		if !ch {
			return v
		}
		return r
	case *ArrayV:
		r := &ArrayV{E: make([]Value, len(x.E))}
		ch := false
		for i, e := range x.E {
			r.E[i] = rl.reloc(e, depth)
			ch = ch || r.E[i] != e
		}
		if !ch {
			return v
		}
		return r
	case *FuncV:
		if x == nil || x.Fn == nil || len(x.Free) == 0 {
			return v
		}
		cf := *x
		cf.Free = make([]Value, len(x.Free))
		ch := false
		for i, e := range x.Free {
			cf.Free[i] = rl.reloc(e, depth)
			ch = ch || cf.Free[i] != e
		}
		if !ch {
			return v
		}
		return &cf
	case *IfaceV:
		if x == nil || x.Dyn == nil || x.Tag != nil {
			return v
		}
		nv := rl.reloc(x.V, depth)
		if nv == x.V {
			return v
		}
		c := *x
		c.V = nv
		return &c
	}
	return v
}

func hasSymbolicLeaf(v Value) bool {
	switch x := v.(type) {
	case *term.T:
		return !x.IsConst()
	case *StructV:
		for _, e := range x.F {
			if hasSymbolicLeaf(e) {
				return true
			}
		}
	case *ArrayV:
		for _, e := range x.E {
			if hasSymbolicLeaf(e) {
				return true
			}
		}
	case *IfaceV:
		if x != nil && x.Tag != nil {
			return true
		}
		if x != nil && x.Dyn != nil {
			return hasSymbolicLeaf(x.V)
		}
	}
	return false
}

func shortFn(fn *ssa.Function) string {
	s := fn.Name()
	if len(s) > 24 {
		s = s[:24]
	}
	return strings.NewReplacer("|", "_", " ", "_").Replace(s)
}

func (b *bmcSys) newStateKeep(name string, s term.Sort) *term.T {
	v := b.f.Var(name, s)
	if _, ok := b.init[v]; !ok {
		b.stateVars = append(b.stateVars, v)
		b.init[v] = zeroOfSort(b.f, s)
	}
	return v
}

// classify determines the pending visible operation of a new location.
func (b *bmcSys) classify(m *Machine, l *bloc) {
	fr := m.top()
	if m.cut {
		l.kind = opTau
		l.desc = "tau@" + shortFn(fr.fn)
		return
	}
	instr := fr.blk.Instrs[fr.idx]
	l.instr = instr
	pos := ""
	if p := instr.Pos(); p.IsValid() {
		pp := b.prog.Fset.Position(p)
		pos = fmt.Sprintf("%s:%d", shortFile(pp.Filename), pp.Line)
	}
	chanOf := func(v ssa.Value) *Chan {
		cv, ok := m.get(fr, v).(*ChanV)
		if !ok {
			unsupported("channel operand is %T", m.get(fr, v))
		}
		if cv.C != nil {
			b.chanState(cv.C)
		}
		return cv.C
	}
	switch in := instr.(type) {
	case *ssa.Send:
		l.kind = opSend
		l.arms = []arm{{send: true, ch: chanOf(in.Chan), x: in.X}}
		l.block = true
		l.desc = "send " + pos
	case *ssa.Store:
		l.kind = opStep
		l.desc = "store to a shared cell " + pos
	case *ssa.UnOp:
		if in.Op == token.MUL {
			l.kind = opStep
			l.desc = "load of a shared cell " + pos
			return
		}
		l.kind = opRecv
		l.arms = []arm{{send: false, ch: chanOf(in.X)}}
		l.commaOk = in.CommaOk
		l.block = true
		l.desc = "recv " + pos
	case *ssa.Select:
		l.kind = opSelect
		l.block = in.Blocking
		for _, st := range in.States {
			a := arm{send: st.Dir == types.SendOnly, ch: chanOf(st.Chan), x: st.Send}
			l.arms = append(l.arms, a)
		}
		l.desc = "select " + pos
	case *ssa.RunDefers:
		d := fr.defers[len(fr.defers)-1]
		if fv, ok := d.fn.(*FuncV); ok && fv != nil && fv.Builtin == "cancel" {
			l.kind = opCancel
			l.arms = []arm{{ch: fv.Data.(*ChanV).C}}
			b.chanState(l.arms[0].ch)
			l.desc = "deferred cancel " + pos
			return
		}
		if fv, ok := d.fn.(*FuncV); ok && fv != nil && fv.Fn != nil {
			switch originOf(fv.Fn).String() {
			case "(*sync.WaitGroup).Done":
				l.kind = opWgDone
			case "(*sync.WaitGroup).Wait":
				l.kind = opWgWait
			default:
				if k := muKind(originOf(fv.Fn).String()); k != 0 {
					l.kind = k
				} else {
					unsupported("deferred %s as a visible operation", fv.Fn)
				}
			}
			l.wgKey = wgKeyOf(d.args[0])
			b.wgVar(l.wgKey)
			if l.kind >= opMuLock && l.kind <= opMuRUnlock {
				b.wgVar(l.wgKey + ".r")
			}
			l.desc = "deferred " + originOf(fv.Fn).Name() + " " + pos
			return
		}
		l.kind = opClose
		cv := d.args[0].(*ChanV)
		if cv.C != nil {
			b.chanState(cv.C)
		}
		l.arms = []arm{{ch: cv.C}}
		l.desc = "deferred close " + pos
	case *ssa.Call:
		c := in.Common()
		if bi, ok := c.Value.(*ssa.Builtin); ok && bi.Name() == "close" {
			l.kind = opClose
			l.arms = []arm{{ch: chanOf(c.Args[0])}}
			l.desc = "close " + pos
			return
		}
		if callee := c.StaticCallee(); callee != nil {
			switch originOf(callee).String() {
			case "(*sync.WaitGroup).Add":
				l.kind = opWgAdd
				l.wgKey = wgKeyOf(m.get(fr, c.Args[0]))
			case "(*sync.WaitGroup).Done":
				l.kind = opWgDone
				l.wgKey = wgKeyOf(m.get(fr, c.Args[0]))
			case "(*sync.WaitGroup).Wait":
				l.kind = opWgWait
				l.wgKey = wgKeyOf(m.get(fr, c.Args[0]))
			case "time.Sleep", "verif.local/vrt.Sleep":
				l.kind = opSleep
			case "(*sync.Mutex).Lock", "(*sync.Mutex).Unlock", "(*sync.RWMutex).Lock", "(*sync.RWMutex).Unlock", "(*sync.RWMutex).RLock", "(*sync.RWMutex).RUnlock":
				l.kind = muKind(originOf(callee).String())
				l.wgKey = wgKeyOf(m.get(fr, c.Args[0]))
				b.wgVar(l.wgKey + ".r")
			case "verif.local/vrt.TrySend":
				l.kind = opTrySend
				l.arms = []arm{{send: true, ch: chanOf(c.Args[0]), x: c.Args[1]}}
			}
			if l.wgKey != "" {
				b.wgVar(l.wgKey)
			}
			if isAtomicModel(originOf(callee).String()) {
				l.kind = opStep
				l.desc = "atomic." + originOf(callee).Name() + " " + pos
				return
			}
			l.desc = originOf(callee).Name() + " " + pos
			return
		}
		if fv, ok := m.get(fr, c.Value).(*FuncV); ok && fv != nil && fv.Builtin == "cancel" {
			l.kind = opCancel
			l.arms = []arm{{ch: fv.Data.(*ChanV).C}}
			b.chanState(l.arms[0].ch)
			l.desc = "cancel " + pos
			return
		}
		unsupported("visible call %s", in)
	default:
		unsupported("visible instruction %T", instr)
	}
}

func shortFile(p string) string {
	if i := strings.LastIndex(p, "/"); i >= 0 {
		return p[i+1:]
	}
	return p
}

func (b *bmcSys) wgVar(k string) *term.T {
	if v, ok := b.wgs[k]; ok {
		return v
	}
	v := b.newState("wg."+k, term.Int, b.f.IntC(b.w.WG[k]))
	b.wgs[k] = v
	return v
}

// restore rebuilds the call stack of a location with symbolic registers.
func (b *bmcSys) restore(m *Machine, l *bloc) {
	m.stack = m.stack[:0]
	for _, tpl := range l.frames {
		fr := &Frame{fn: tpl.fn, blk: tpl.blk, prev: tpl.prev, idx: tpl.idx, regs: make(map[ssa.Value]Value, len(tpl.fixed)+len(tpl.slots)),
			free: tpl.free, callInstr: tpl.callInstr, catch: tpl.catch}
		fr.defers = append(fr.defers, tpl.defers...)
		for k, v := range tpl.fixed {
			fr.regs[k] = v
		}
		for _, s := range tpl.slots {
			pos := 0
			fr.regs[s.reg] = m.unflatten(s.typ, s.vars, &pos)
		}
		m.stack = append(m.stack, fr)
	}
}
