package interp

import (
	"fmt"

	"golang.org/x/tools/go/ssa"

	"verif.local/engine/smt"
)

type BMCJob struct {
	Harness string
	Params  map[string]int
	Solver  string
	Timeout int
	K       int
	Verbose bool
}

type BMCResult struct {
	Configs         int
	K               int
	States          int
	Transitions     int
	TracesValidated int
	Witnesses       map[string]string
	Violations      []*Violation
	Unsupported     []string
	Unknown         []string
	Samples         []string
	Funcs           map[string]int
	Stubs           map[string]int
	Asserts         map[string]int
	Covers          map[string]int
}

func RunBMC(prog *ssa.Program, sizes typesSizes, fn *ssa.Function, job *BMCJob) (*BMCResult, *smt.Stats, error) {
	return nil, nil, fmt.Errorf("BMC not built yet")
}
