package interp

import (
	"fmt"
	"go/types"
	"sort"

	"golang.org/x/tools/go/ssa"

	"verif.local/engine/term"
)

func (b *bmcSys) newProcMachine(p *bproc, prefix []int) *Machine {
	m := newMachine(b.w, b.f, b.s, b.r, 200000)
	m.constCache = b.setup.constCache
	m.globals = b.setup.globals
	m.initDone = b.setup.initDone
	m.nobj = b.setup.nobj + 100000
	m.prefix = prefix
	m.procMode = true
	m.bmcHooks = b.setup.bmcHooks
	m.curProc = p.p
	m.overlay = map[*Object]Value{}
	m.symHeap = b.symHeap
	m.pathUpd = map[*term.T]*term.T{}
	m.trackRW = true
	m.reads = map[string]bool{}
	m.writes = map[string]bool{}
	m.trackObjs = false
	m.escaped = map[*Object]bool{}
	m.chanLenFn = func(c *Chan) Value {
		m.touched = append(m.touched, c) // the local code depends on this channel's state
		ln := b.chanState(c).length
		if u, ok := m.outcomeUpd[ln]; ok {
			ln = u // the step's own receive/send has already changed the length
		}
		return b.intToBV(ln)
	}
	m.arenaLoadFn = func(p *PtrV) Value { return b.arenaLoad(m, p) }
	m.arenaStoreFn = func(p *PtrV, v Value) { b.arenaStore(m, p, v) }
	m.arenaAllocFn = func(t types.Type, fr *Frame) Value { return b.arenaAlloc(m, t, fr) }
	return m
}

// ---- arenas: bounded pools of objects allocated by running goroutines

func (b *bmcSys) arenaLoad(m *Machine, p *PtrV) Value {
	f := b.f
	if p.Idx.IsConst() {
		i := int(p.Idx.I)
		if i < 0 || i >= len(p.Arena.Slots) {
			m.goPanic("nil pointer dereference (arena)")
		}
		m.noteRead(p.Arena.Slots[i], p.Sub)
		return getPath(m.objVal(p.Arena.Slots[i]), p.Sub)
	}
	if m.branch(f.Eq(p.Idx, f.IntC(-1)), "nil arena pointer") {
		m.goPanic("nil pointer dereference")
	}
	var res Value
	for i := len(p.Arena.Slots) - 1; i >= 0; i-- {
		m.noteRead(p.Arena.Slots[i], p.Sub)
		v := getPath(m.objVal(p.Arena.Slots[i]), p.Sub)
		if res == nil {
			res = v
		} else {
			res = m.merge(f.Eq(p.Idx, f.IntC(int64(i))), v, res)
		}
	}
	return res
}

func (b *bmcSys) arenaStore(m *Machine, p *PtrV, v Value) {
	f := b.f
	if !p.Idx.IsConst() {
		if m.branch(f.Eq(p.Idx, f.IntC(-1)), "nil arena pointer") {
			m.goPanic("nil pointer dereference")
		}
	}
	for i, slot := range p.Arena.Slots {
		c := f.Eq(p.Idx, f.IntC(int64(i)))
		if c.IsFalse() {
			continue
		}
		m.noteWrite(slot, p.Sub)
		old := m.objVal(slot)
		m.setObjVal(slot, setPath(old, p.Sub, m.merge(c, v, getPath(old, p.Sub))))
	}
}

func (b *bmcSys) arenaAlloc(m *Machine, t types.Type, fr *Frame) Value {
	f := b.f
	var ar *Arena
	for _, a := range b.w.Arenas {
		if types.Identical(a.T, t) {
			ar = a
		}
	}
	cur := ar.Next
	if u, ok := m.pathUpd[ar.Next]; ok {
		cur = u
	}
	m.pathUpd[ar.Next] = f.IAdd(cur, f.IntC(1))
	// running out of slots is reported, never silently wrapped
	m.asserts = append(m.asserts, assertRec{label: "arena.overflow(raise the arena size)", cond: f.ILt(cur, f.IntC(int64(len(ar.Slots))))})
	p := &PtrV{Arena: ar, Idx: cur}
	b.arenaStore(m, p, m.zero(t))
	return p
}

func andT(f *term.Factory, ts ...*term.T) *term.T { return f.And(ts...) }

// ready is the buffer-level readiness of a select arm (rendez-vous partners are
// not counted: a partner that has reached its operation may not have parked yet).
func (b *bmcSys) ready(a arm) *term.T {
	f := b.f
	if a.ch == nil {
		return f.False()
	}
	bc := b.chanState(a.ch)
	if bc.deadline != nil {
		b.nowUsed = true
		return f.ULe(bc.deadline, b.now)
	}
	if a.send {
		if a.ch.Cap == 0 {
			return bc.closed
		}
		return f.Or(bc.closed, f.ILt(bc.length, f.IntC(int64(a.ch.Cap))))
	}
	return f.Or(bc.closed, f.ILt(f.IntC(0), bc.length))
}

// outcomeSpecs lists the possible outcomes of the pending operation of l.
func (b *bmcSys) outcomeSpecs(l *bloc) []*outcome {
	f := b.f
	var out []*outcome
	add := func(o *outcome) *outcome { o.loc = l; out = append(out, o); return o }
	armOutcomes := func(i int, a arm) {
		if a.ch == nil {
			return // nil channel: never ready
		}
		bc := b.chanState(a.ch)
		if bc.deadline != nil {
			b.nowUsed = true
			add(&outcome{name: "timer", arm: i, chanG: f.ULe(bc.deadline, b.now), chans: []*Chan{a.ch}, clock: true})
			return
		}
		capc := f.IntC(int64(a.ch.Cap))
		if a.send {
			if a.ch.Cap > 0 {
				add(&outcome{name: "send", arm: i, chanG: f.And(f.Not(bc.closed), f.ILt(bc.length, capc)), chans: []*Chan{a.ch}})
			} else {
				add(&outcome{name: "send-rv", arm: i, rv: true, chanG: f.Not(bc.closed), chans: []*Chan{a.ch}})
			}
			if l.kind == opTrySend {
				add(&outcome{name: "trysend-closed", arm: i, chanG: bc.closed, chans: []*Chan{a.ch}})
			} else {
				add(&outcome{name: "send-closed", arm: i, chanG: bc.closed, panicMsg: "send on closed channel", chans: []*Chan{a.ch}})
			}
			return
		}
		if a.ch.Cap > 0 {
			add(&outcome{name: "recv", arm: i, chanG: f.ILt(f.IntC(0), bc.length), chans: []*Chan{a.ch}})
		} else if !a.ch.IsCtx {
			add(&outcome{name: "recv-rv", arm: i, rv: true, chanG: f.Not(bc.closed), chans: []*Chan{a.ch}})
		}
		add(&outcome{name: "recv-closed", arm: i, chanG: f.And(bc.closed, f.Eq(bc.length, f.IntC(0))), chans: []*Chan{a.ch}})
	}
	switch l.kind {
	case opStart, opTau, opStep:
		add(&outcome{name: "go", chanG: f.True()})
	case opSend, opRecv, opTrySend:
		armOutcomes(0, l.arms[0])
	case opSelect:
		for i, a := range l.arms {
			armOutcomes(i, a)
		}
		if !l.block {
			var rs []*term.T
			var cs []*Chan
			for _, a := range l.arms {
				rs = append(rs, f.Not(b.ready(a)))
				if a.ch != nil {
					cs = append(cs, a.ch)
				}
			}
			add(&outcome{name: "default", arm: -1, chanG: f.And(rs...), chans: cs})
		}
	case opClose:
		c := l.arms[0].ch
		if c == nil {
			add(&outcome{name: "close-nil", chanG: f.True(), panicMsg: "close of nil channel"})
			break
		}
		bc := b.chanState(c)
		add(&outcome{name: "close", chanG: f.Not(bc.closed), chanUpd: map[*term.T]*term.T{bc.closed: f.True()}, chans: []*Chan{c}})
		add(&outcome{name: "close-closed", chanG: bc.closed, panicMsg: "close of closed channel", chans: []*Chan{c}})
	case opCancel:
		c := l.arms[0].ch
		bc := b.chanState(c)
		add(&outcome{name: "cancel", chanG: f.True(), chanUpd: map[*term.T]*term.T{bc.closed: f.True()}, chans: []*Chan{c}})
	case opWgAdd:
		add(&outcome{name: "wg.add", chanG: f.True()})
	case opWgDone:
		w := b.wgVar(l.wgKey)
		add(&outcome{name: "wg.done", chanG: f.ILt(f.IntC(0), w), chanUpd: map[*term.T]*term.T{w: f.ISub(w, f.IntC(1))}})
		add(&outcome{name: "wg.negative", chanG: f.ILe(w, f.IntC(0)), panicMsg: "sync: negative WaitGroup counter"})
	case opWgWait:
		w := b.wgVar(l.wgKey)
		add(&outcome{name: "wg.wait", chanG: f.Eq(w, f.IntC(0))})
	case opMuLock:
		w, r := b.wgVar(l.wgKey), b.wgVar(l.wgKey+".r")
		add(&outcome{name: "lock", chanG: f.And(f.Eq(w, f.IntC(0)), f.Eq(r, f.IntC(0))), chanUpd: map[*term.T]*term.T{w: f.IntC(1)}})
	case opMuUnlock:
		w := b.wgVar(l.wgKey)
		add(&outcome{name: "unlock", chanG: f.Eq(w, f.IntC(1)), chanUpd: map[*term.T]*term.T{w: f.IntC(0)}})
		add(&outcome{name: "unlock-unlocked", chanG: f.Not(f.Eq(w, f.IntC(1))), panicMsg: "sync: unlock of unlocked mutex"})
	case opMuRLock:
		w, r := b.wgVar(l.wgKey), b.wgVar(l.wgKey+".r")
		add(&outcome{name: "rlock", chanG: f.Eq(w, f.IntC(0)), chanUpd: map[*term.T]*term.T{r: f.IAdd(r, f.IntC(1))}})
	case opMuRUnlock:
		r := b.wgVar(l.wgKey + ".r")
		add(&outcome{name: "runlock", chanG: f.ILt(f.IntC(0), r), chanUpd: map[*term.T]*term.T{r: f.ISub(r, f.IntC(1))}})
		add(&outcome{name: "runlock-unlocked", chanG: f.ILe(r, f.IntC(0)), panicMsg: "sync: RUnlock of unlocked RWMutex"})
	case opSleep:
		b.nowUsed = true
		add(&outcome{name: "wake", chanG: f.ULe(l.proc.sleepVar(b), b.now), clock: true})
	}
	return out
}

func (p *bproc) sleepVar(b *bmcSys) *term.T {
	if p.sleep == nil {
		p.sleep = b.newState(fmt.Sprintf("sleep.p%d", p.idx), term.BV(clockW), b.f.BVC(clockW, 0))
	}
	return p.sleep
}

// bind applies an outcome to the restored machine: binds result registers,
// computes channel effects that depend on register values, advances the pc.
func (b *bmcSys) bind(m *Machine, l *bloc, o *outcome) {
	f := b.f
	if l.kind == opStart {
		p := l.proc.p
		m.pushCall(p.Fn.Fn, p.Args, p.Fn.Free, nil)
		return
	}
	fr := m.top()
	if l.kind == opTau {
		m.cut = false
		return
	}
	if l.kind == opStep {
		m.skipVis = true // the pending instruction is executed now, as part of this step
		return
	}
	instr := l.instr
	if o.chanUpd == nil {
		o.chanUpd = map[*term.T]*term.T{}
	}
	sendEffect := func(a arm) {
		bc := b.chanState(a.ch)
		leaves := m.flatten(m.get(fr, a.x), a.ch.ElemT, nil)
		o.sendVals = leaves
		if a.ch.Cap > 0 && (o.name == "send") {
			for i := 0; i < a.ch.Cap; i++ {
				for k := range leaves {
					o.chanUpd[bc.buf[i][k]] = f.Ite(f.Eq(bc.length, f.IntC(int64(i))), leaves[k], bc.buf[i][k])
				}
			}
			o.chanUpd[bc.length] = f.IAdd(bc.length, f.IntC(1))
		}
	}
	recvValue := func(a arm) (Value, *term.T) {
		bc := b.chanState(a.ch)
		switch o.name {
		case "recv":
			pos := 0
			v := m.unflatten(a.ch.ElemT, bc.buf[0], &pos)
			for i := 0; i+1 < a.ch.Cap; i++ {
				for k := range bc.buf[i] {
					o.chanUpd[bc.buf[i][k]] = bc.buf[i+1][k]
				}
			}
			o.chanUpd[bc.length] = f.ISub(bc.length, f.IntC(1))
			return v, f.True()
		case "recv-rv":
			if o.rvVals == nil {
				for k, so := range bc.sorts {
					o.rvVals = append(o.rvVals, f.Var(fmt.Sprintf("rv.r%d.l%d.a%d.%d", b.extractRound, l.id, o.arm, k), so))
				}
			}
			pos := 0
			return m.unflatten(a.ch.ElemT, o.rvVals, &pos), f.True()
		case "timer":
			return m.zero(a.ch.ElemT), f.True()
		}
		return m.zero(a.ch.ElemT), f.False() // recv-closed
	}
	switch in := instr.(type) {
	case *ssa.Send:
		sendEffect(l.arms[0])
		fr.idx++
	case *ssa.UnOp:
		v, ok := recvValue(l.arms[0])
		if in.CommaOk {
			fr.regs[in] = TupleV{v, ok}
		} else {
			fr.regs[in] = v
		}
		fr.idx++
	case *ssa.Select:
		tt := in.Type().(*types.Tuple)
		tv := make(TupleV, tt.Len())
		tv[0] = f.BVC(64, uint64(int64(o.arm)))
		tv[1] = f.False()
		pos := 2
		for i, a := range l.arms {
			if a.send {
				if i == o.arm {
					sendEffect(a)
				}
				continue
			}
			if i == o.arm {
				v, ok := recvValue(a)
				tv[pos] = v
				tv[1] = ok
			} else {
				tv[pos] = m.zero(tt.At(pos).Type())
			}
			pos++
		}
		fr.regs[in] = tv
		fr.idx++
	case *ssa.RunDefers:
		fr.defers = fr.defers[:len(fr.defers)-1] // the deferred close/cancel has run
	case *ssa.Call:
		switch l.kind {
		case opWgAdd:
			n := m.get(fr, in.Common().Args[1]).(*term.T)
			w := b.wgVar(l.wgKey)
			o.chanUpd[w] = f.IAdd(w, b.durToInt(n))
		case opTrySend:
			if o.name != "trysend-closed" {
				sendEffect(l.arms[0])
			}
			fr.regs[in] = f.BoolC(o.name != "trysend-closed")
		}
		if _, has := fr.regs[in]; !has {
			fr.regs[in] = nil
		}
		fr.idx++
	}
}

// extract computes every path of every outcome of location l.
func (b *bmcSys) extract(l *bloc) {
	l.done = true
	for _, o := range b.outcomeSpecs(l) {
		b.outcomes = append(b.outcomes, o)
		if o.panicMsg != "" {
			o.paths = []*bpath{{guard: b.f.True(), upd: map[*term.T]*term.T{}, dst: l.proc.exit, panicMsg: o.panicMsg}}
			continue
		}
		snap := b.f.SnapshotFresh()
		work := [][]int{nil}
		for len(work) > 0 {
			prefix := work[len(work)-1]
			work = work[:len(work)-1]
			m := b.newProcMachine(l.proc, prefix)
			b.f.RestoreFresh(snap)
			b.s.Push()
			p := b.runProcPath(m, l, o)
			b.s.Pop()
			work = append(work, m.pending...)
			if p != nil {
				o.paths = append(o.paths, p)
			}
			if len(o.paths) > 4000 {
				unsupported("too many local paths from %s", l.desc)
			}
		}
	}
}

func (b *bmcSys) runProcPath(m *Machine, l *bloc, o *outcome) (p *bpath) {
	f := b.f
	finish := func(dst *bloc, regUpd map[*term.T]*term.T, panicMsg string) *bpath {
		upd := map[*term.T]*term.T{}
		for k, v := range regUpd {
			upd[k] = v
		}
		for obj, nv := range m.overlay {
			base, ok := b.symHeap[obj]
			if !ok {
				continue // object local to this path
			}
			b.diffObject(m, obj, nv, base, obj.T, nil, upd)
		}
		for k, v := range m.pathUpd {
			upd[k] = v
		}
		np := &bpath{guard: f.And(m.pc...), upd: upd, dst: dst, asserts: m.asserts, covers: m.covers, inputs: m.inputs,
			reads: m.reads, writes: m.writes, panicMsg: panicMsg, choices: m.choiceSeq, chans: m.touched}
		return np
	}
	defer func() {
		if x := recover(); x != nil {
			switch e := x.(type) {
			case pathEnd:
				p = nil
			case goPanicSig:
				p = finish(l.proc.exit, nil, e.msg)
			case UnsafeViolation:
				p = finish(l.proc.exit, nil, "unsafe: "+e.Msg)
			case Unsupported:
				panic(Unsupported{e.Msg + " @ " + m.where() + " [from " + l.desc + "/" + o.name + "]"})
			default:
				panic(x)
			}
		}
	}()
	b.restore(m, l)
	b.bind(m, l, o)
	m.outcomeUpd = o.chanUpd
	m.stopped = false
	m.run(0)
	dst, regUpd := b.capture(m, l.proc)
	if dst.kind == opSleep {
		fr := m.top()
		call := fr.blk.Instrs[fr.idx].(*ssa.Call)
		d := m.get(fr, call.Common().Args[0]).(*term.T)
		b.nowUsed = true
		regUpd[l.proc.sleepVar(b)] = f.Add(b.now, b.dur(d))
	}
	m.cut = false
	return finish(dst, regUpd, "")
}

// ---------------------------------------------------------------------------
// transitions
// ---------------------------------------------------------------------------

func (b *bmcSys) mkTrans(procs []*bproc, src, dst []*bloc, guard *term.T, label string) *btrans {
	t := &btrans{id: len(b.trans), procs: procs, src: src, dst: dst, guard: guard, upd: map[*term.T]*term.T{}, label: label,
		chans: map[int]bool{}, reads: map[string]bool{}, writes: map[string]bool{}, wgs: map[string]bool{}}
	t.env = true
	for _, p := range procs {
		if p.p.Lib {
			t.env = false
		}
	}
	b.trans = append(b.trans, t)
	return t
}

func (t *btrans) absorb(o *outcome, p *bpath, sub func(*term.T) *term.T) {
	for k, v := range o.chanUpd {
		t.upd[k] = v
	}
	for k, v := range p.upd {
		if _, dup := t.upd[k]; dup && t.upd[k] != sub(v) {
			unsupported("two halves of a rendez-vous write the same state variable %s", k.Name)
		}
		t.upd[k] = sub(v)
	}
	for _, a := range p.asserts {
		t.asserts = append(t.asserts, assertRec{label: a.label, cond: sub(a.cond)})
	}
	t.covers = append(t.covers, p.covers...)
	t.choices = append(t.choices, p.choices...)
	t.inputs = append(t.inputs, p.inputs...)
	for _, c := range o.chans {
		t.chans[c.ID] = true
	}
	for _, c := range p.chans {
		t.chans[c.ID] = true
	}
	for k := range p.reads {
		t.reads[k] = true
	}
	for k := range p.writes {
		t.writes[k] = true
	}
	if o.loc.wgKey != "" {
		if o.loc.kind >= opMuLock && o.loc.kind <= opMuRUnlock {
			t.wgs[o.loc.wgKey+".r"] = true
		}
		t.wgs[o.loc.wgKey] = true
	}
	if o.clock {
		t.clock = true
	}
	if p.panicMsg != "" {
		t.panicMsg = p.panicMsg
	}
}

func (b *bmcSys) buildTransitions() {
	f := b.f
	id := func(x *term.T) *term.T { return x }
	for _, o := range b.outcomes {
		if o.rv {
			continue
		}
		for _, p := range o.paths {
			t := b.mkTrans([]*bproc{o.loc.proc}, []*bloc{o.loc}, []*bloc{p.dst}, f.And(o.chanG, p.guard),
				fmt.Sprintf("%s: %s [%s] -> %s", o.loc.proc.p.Name, o.loc.desc, o.name, p.dst.desc))
			t.absorb(o, p, id)
		}
	}
	// rendez-vous: pair every sender half with every receiver half on the same channel
	for _, so := range b.outcomes {
		if !so.rv || so.name != "send-rv" {
			continue
		}
		for _, ro := range b.outcomes {
			if !ro.rv || ro.name != "recv-rv" || ro.chans[0] != so.chans[0] || ro.loc.proc == so.loc.proc {
				continue
			}
			for _, ps := range so.paths {
				for _, pr := range ro.paths {
					sub := map[*term.T]*term.T{}
					for k := range ro.rvVals {
						sub[ro.rvVals[k]] = so.sendVals[k]
					}
					memo := map[int]*term.T{}
					sf := func(x *term.T) *term.T { return f.Subst(x, sub, memo) }
					t := b.mkTrans([]*bproc{so.loc.proc, ro.loc.proc}, []*bloc{so.loc, ro.loc}, []*bloc{ps.dst, pr.dst},
						f.And(so.chanG, ps.guard, sf(pr.guard)),
						fmt.Sprintf("%s -> %s: rendez-vous on ch%d (%s | %s)", so.loc.proc.p.Name, ro.loc.proc.p.Name, so.chans[0].ID, so.loc.desc, ro.loc.desc))
					t.absorb(so, ps, id)
					t.absorb(ro, pr, sf)
				}
			}
		}
	}
	sort.SliceStable(b.trans, func(i, j int) bool { return b.trans[i].procs[0].idx < b.trans[j].procs[0].idx })
	for i, t := range b.trans {
		t.id = i
	}
}

// enabled is the state predicate "outcome o can fire" (path guards ignored:
// the paths of one outcome partition its cases).
func (b *bmcSys) enabled(o *outcome) *term.T {
	f := b.f
	at := f.Eq(o.loc.proc.pc, f.IntC(int64(o.loc.id)))
	if !o.rv {
		return f.And(at, o.chanG)
	}
	var partners []*term.T
	for _, q := range b.outcomes {
		if !q.rv || q.name == o.name || q.chans[0] != o.chans[0] || q.loc.proc == o.loc.proc {
			continue
		}
		partners = append(partners, f.Eq(q.loc.proc.pc, f.IntC(int64(q.loc.id))))
	}
	return f.And(at, o.chanG, f.Or(partners...))
}
