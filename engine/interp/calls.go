package interp

import (
	"fmt"
	"go/types"
	"math"
	"reflect"
	"strings"

	"golang.org/x/tools/go/ssa"

	"verif.local/engine/term"
)

var interpPrefixes = []string{
	"github.com/fogfish/golem",
	"verif.local/vrt",
	"errors", "slices", "cmp", "sort", "maps", "iter",
}

func interpretablePkg(path string) bool {
	for _, p := range interpPrefixes {
		if path == p || strings.HasPrefix(path, p+"/") {
			return true
		}
	}
	return false
}

func originOf(fn *ssa.Function) *ssa.Function {
	if o := fn.Origin(); o != nil {
		return o
	}
	return fn
}

func fnPkgPath(fn *ssa.Function) string {
	o := originOf(fn)
	if o.Pkg != nil {
		return o.Pkg.Pkg.Path()
	}
	if o.Object() != nil && o.Object().Pkg() != nil {
		return o.Object().Pkg().Path()
	}
	if p := o.Parent(); p != nil {
		return fnPkgPath(p)
	}
	// synthetic wrappers ($bound, $thunk): use the wrapped object
	return ""
}

func (m *Machine) doCall(fr *Frame, c *ssa.CallCommon, res ssa.Value) {
	var args []Value
	if c.IsInvoke() {
		recv := m.get(fr, c.Value)
		for _, a := range c.Args {
			args = append(args, m.get(fr, a))
		}
		m.invokeMethod(fr, recv, c.Method, args, res)
		return
	}
	fnv := m.get(fr, c.Value)
	for _, a := range c.Args {
		args = append(args, m.get(fr, a))
	}
	m.invoke(fr, fnv, args, res, c)
}

func (m *Machine) bind(fr *Frame, res ssa.Value, v Value) {
	if res != nil {
		fr.regs[res] = v
	}
}

func (m *Machine) invoke(fr *Frame, fnv Value, args []Value, res ssa.Value, c *ssa.CallCommon) {
	switch f := fnv.(type) {
	case *ssa.Builtin:
		m.bind(fr, res, m.builtin(fr, f, args, c))
	case *FuncV:
		if f == nil {
			m.goPanic("call of nil function")
		}
		if f.Fn == nil {
			m.bind(fr, res, m.callBuiltinClosure(f, args))
			return
		}
		if mod := m.model(f.Fn, args, res); mod != nil {
			if !mod.pushed {
				m.bind(fr, res, mod.v)
			}
			return
		}
		if f.Fn.Name() == "init" && f.Fn.Pkg != nil && f.Fn.Signature.Recv() == nil && f.Fn.Parent() == nil {
			// package initialiser of a dependency: only golem's own packages are run
			pp := f.Fn.Pkg.Pkg.Path()
			if !strings.HasPrefix(pp, "github.com/fogfish/golem") || m.initDone[f.Fn.Pkg] {
				return
			}
			m.initDone[f.Fn.Pkg] = true
		}
		if len(f.Fn.Blocks) == 0 || (!interpretablePkg(fnPkgPath(f.Fn)) && fnPkgPath(f.Fn) != "") {
			unsupported("no model for external function %s", f.Fn)
		}
		m.pushCall(f.Fn, args, f.Free, res)
	default:
		unsupported("call of %T", fnv)
	}
}

var modelErrT = types.NewNamed(types.NewTypeName(0, nil, "modelError", nil), types.NewStruct(nil, nil), nil)
var rtypeMarker = types.NewNamed(types.NewTypeName(0, nil, "rtype", nil), types.NewStruct(nil, nil), nil)
var modelObjT = types.NewNamed(types.NewTypeName(0, nil, "modelObject", nil), types.NewStruct(nil, nil), nil)

func (m *Machine) newModelError(msg string) Value {
	o := m.newObject(modelErrT, msg, "error")
	return &IfaceV{Dyn: types.NewPointer(modelErrT), V: &PtrV{Obj: o}}
}

func (m *Machine) invokeMethod(fr *Frame, recv Value, meth *types.Func, args []Value, res ssa.Value) {
	iv, ok := recv.(*IfaceV)
	if !ok {
		unsupported("invoke on %T", recv)
	}
	if iv.Tag != nil {
		iv = m.concretizeIface(iv)
	}
	if iv.Dyn == nil {
		m.goPanic("nil pointer dereference (method %s on nil interface)", meth.Name())
	}
	switch pv := iv.V.(type) {
	case *RTypeV:
		m.bind(fr, res, m.reflectMethod(pv, meth.Name(), args, meth))
		return
	case *ModelV:
		m.bind(fr, res, m.modelMethod(pv, meth.Name(), args))
		return
	case *PtrV:
		if pv.Obj != nil && pv.Obj.T == modelErrT {
			if meth.Name() == "Error" {
				m.bind(fr, res, pv.Obj.Val)
				return
			}
			if meth.Name() == "Unwrap" {
				m.bind(fr, res, &IfaceV{})
				return
			}
		}
	}
	sel := m.W.Prog.MethodSets.MethodSet(iv.Dyn).Lookup(meth.Pkg(), meth.Name())
	if sel == nil {
		unsupported("method %s not found on %s", meth.Name(), iv.Dyn)
	}
	fn := m.W.Prog.MethodValue(sel)
	if fn == nil {
		unsupported("no method value for %s.%s", iv.Dyn, meth.Name())
	}
	all := append([]Value{iv.V}, args...)
	if mod := m.model(fn, all, res); mod != nil {
		if !mod.pushed {
			m.bind(fr, res, mod.v)
		}
		return
	}
	m.pushCall(fn, all, nil, res)
}

// ---- builtins

func (m *Machine) lenOf(v Value) Value {
	f := m.F
	switch x := v.(type) {
	case string:
		return f.BVC(64, uint64(len(x)))
	case *SymStr:
		return x.Len
	case *SliceV:
		return f.BVC(64, uint64(x.Len))
	case *ArrayV:
		return f.BVC(64, uint64(len(x.E)))
	case *MapV:
		if x.M == nil {
			return f.BVC(64, 0)
		}
		return f.BVC(64, uint64(len(x.M.V)))
	case *ChanV:
		if x.C == nil {
			return f.BVC(64, 0)
		}
		if m.procMode {
			if m.chanLenFn == nil {
				unsupported("len(chan) inside a goroutine")
			}
			return m.chanLenFn(x.C)
		}
		return f.BVC(64, uint64(len(x.C.Buf)))
	case *PtrV:
		return m.lenOf(m.load(x))
	}
	unsupported("len of %T", v)
	return nil
}

func (m *Machine) builtin(fr *Frame, b *ssa.Builtin, args []Value, c *ssa.CallCommon) Value {
	f := m.F
	switch b.Name() {
	case "len":
		return m.lenOf(args[0])
	case "cap":
		switch x := args[0].(type) {
		case *SliceV:
			return f.BVC(64, uint64(x.Cap))
		case *ChanV:
			if x.C == nil {
				return f.BVC(64, 0)
			}
			return f.BVC(64, uint64(x.C.Cap))
		case *ArrayV:
			return f.BVC(64, uint64(len(x.E)))
		}
	case "append":
		s := args[0].(*SliceV)
		var add []Value
		switch t := args[1].(type) {
		case *SliceV:
			for i := 0; i < t.Len; i++ {
				add = append(add, m.load(&PtrV{Obj: t.Obj, Path: []int{t.Off + i}}))
			}
		case string:
			for i := 0; i < len(t); i++ {
				add = append(add, f.BVC(8, uint64(t[i])))
			}
		default:
			unsupported("append of %T", args[1])
		}
		if len(add) == 0 {
			return s
		}
		need := s.Len + len(add)
		if s.Obj != nil && need <= s.Cap {
			for i, v := range add {
				m.store(&PtrV{Obj: s.Obj, Path: []int{s.Off + s.Len + i}}, v)
			}
			return &SliceV{Obj: s.Obj, Off: s.Off, Len: need, Cap: s.Cap, ElemT: s.ElemT}
		}
		nc := s.Cap * 2
		if nc < need {
			nc = need
		}
		ns := m.makeSlice(s.ElemT, need, nc)
		arr := m.objVal(ns.Obj).(*ArrayV)
		elems := append([]Value(nil), arr.E...)
		for i := 0; i < s.Len; i++ {
			elems[i] = m.load(&PtrV{Obj: s.Obj, Path: []int{s.Off + i}})
		}
		for i, v := range add {
			elems[s.Len+i] = v
		}
		m.setObjVal(ns.Obj, &ArrayV{E: elems})
		return ns
	case "copy":
		d := args[0].(*SliceV)
		n := d.Len
		switch s := args[1].(type) {
		case *SliceV:
			if s.Len < n {
				n = s.Len
			}
			vals := make([]Value, n)
			for i := 0; i < n; i++ {
				vals[i] = m.load(&PtrV{Obj: s.Obj, Path: []int{s.Off + i}})
			}
			for i := 0; i < n; i++ {
				m.store(&PtrV{Obj: d.Obj, Path: []int{d.Off + i}}, vals[i])
			}
		case string:
			if len(s) < n {
				n = len(s)
			}
			for i := 0; i < n; i++ {
				m.store(&PtrV{Obj: d.Obj, Path: []int{d.Off + i}}, f.BVC(8, uint64(s[i])))
			}
		}
		return f.BVC(64, uint64(n))
	case "close":
		ch := args[0].(*ChanV)
		if ch.C == nil {
			m.goPanic("close of nil channel")
		}
		if m.procMode {
			unsupported("internal: close reached the sequential path in process mode")
		}
		if ch.C.Closed {
			m.goPanic("close of closed channel")
		}
		ch.C.Closed = true
		return nil
	case "panic":
		panic(goPanicSig{msg: "panic: " + m.show(args[0]), val: args[0]})
	case "delete":
		mv := args[0].(*MapV)
		if mv.M != nil {
			k := m.mapKey(args[1])
			delete(mv.M.V, k)
			delete(mv.M.K, k)
		}
		return nil
	case "min", "max":
		t := c.Args[0].Type()
		acc := args[0]
		for _, a := range args[1:] {
			var lt *term.T
			if b.Name() == "min" {
				lt = m.binop(tokenLSS, a, acc, t, t).(*term.T)
			} else {
				lt = m.binop(tokenLSS, acc, a, t, t).(*term.T)
			}
			x, ok1 := a.(*term.T)
			y, ok2 := acc.(*term.T)
			if !ok1 || !ok2 {
				unsupported("min/max of %T", a)
			}
			acc = f.Ite(lt, x, y)
		}
		return acc
	case "print", "println":
		return nil
	case "Add": // unsafe.Add(ptr, len)
		d, ok := args[1].(*term.T)
		if !ok {
			unsupported("unsafe.Add with a non-integer length")
		}
		if !d.IsConst() {
			if d.S.W < 64 {
				d = f.SExt(64, d)
			}
			switch p := args[0].(type) {
			case *PtrV:
				if p.IsNil() || p.Arena != nil {
					unsupported("unsafe.Add on nil/arena pointer with symbolic length")
				}
				return &AddrV{Obj: p.Obj, Path: p.Path, Sym: d}
			case *AddrV:
				sym := d
				if p.Sym != nil {
					sym = f.Add(p.Sym, d)
				}
				return &AddrV{Obj: p.Obj, Path: p.Path, Off: p.Off, Nil: p.Nil, Sym: sym}
			}
			unsupported("unsafe.Add with a symbolic length on %T", args[0])
		}
		switch p := args[0].(type) {
		case *PtrV:
			if p.IsNil() {
				return &AddrV{Nil: true, Off: term.SignedVal(d)}
			}
			return &AddrV{Obj: p.Obj, Path: p.Path, Off: term.SignedVal(d)}
		case *AddrV:
			return &AddrV{Obj: p.Obj, Path: p.Path, Off: p.Off + term.SignedVal(d), Nil: p.Nil}
		}
	case "ssa:wrapnilchk":
		p, ok := args[0].(*PtrV)
		if ok && p.IsNil() {
			m.goPanic("value method called using nil pointer")
		}
		return args[0]
	case "clear":
		unsupported("clear")
	}
	unsupported("builtin %s on %T", b.Name(), args)
	return nil
}

func (m *Machine) callBuiltinClosure(f *FuncV, args []Value) Value {
	switch f.Builtin {
	case "cancel":
		ch := f.Data.(*ChanV)
		if m.procMode {
			unsupported("internal: cancel reached the sequential path in process mode")
		}
		ch.C.Closed = true
		return nil
	case "uf":
		// UF-backed function value: name in Data
		unsupported("uf closure")
	}
	unsupported("builtin closure %s", f.Builtin)
	return nil
}

// ---- models

type modelRes struct {
	v      Value
	pushed bool
}

func constStr(v Value) string {
	s, ok := v.(string)
	if !ok {
		unsupported("intrinsic needs a constant string, got %T", v)
	}
	return s
}

func (m *Machine) constInt(v Value) int {
	t := v.(*term.T)
	if !t.IsConst() {
		unsupported("intrinsic needs a constant integer")
	}
	return int(term.SignedVal(t))
}

func (m *Machine) freshVar(name string, s term.Sort) *term.T {
	v := m.F.Fresh(name, s)
	m.inputs = append(m.inputs, v)
	return v
}

func (m *Machine) model(fn *ssa.Function, args []Value, res ssa.Value) *modelRes {
	o := originOf(fn)
	name := o.String()
	f := m.F
	ret := func(v Value) *modelRes {
		m.R.Stubs[name]++
		return &modelRes{v: v}
	}
	switch name {
	// ---------------- vrt
	case "verif.local/vrt.Int":
		return &modelRes{v: m.freshVar(constStr(args[0]), term.BV(64))}
	case "verif.local/vrt.Bool":
		return &modelRes{v: m.freshVar(constStr(args[0]), term.Bool)}
	case "verif.local/vrt.Choice":
		nm := constStr(args[0])
		n := m.constInt(args[1])
		v := m.choice(n, nm)
		m.logChoice(nm, v)
		return &modelRes{v: f.BVC(64, uint64(v))}
	case "verif.local/vrt.Param":
		nm := constStr(args[0])
		if v, ok := m.W.Params[nm]; ok {
			return &modelRes{v: f.BVC(64, uint64(v))}
		}
		return &modelRes{v: args[1]}
	case "verif.local/vrt.Str":
		return &modelRes{v: m.freshStr(constStr(args[0]), m.constInt(args[1]))}
	case "verif.local/vrt.Fresh":
		nm := constStr(args[0])
		n := m.F.Fresh("fresh:"+nm, term.Bool) // only to allocate the index
		idx := strings.TrimPrefix(n.Name, "fresh:"+nm)
		return &modelRes{v: m.freshOf(fn.TypeArgs()[0], nm+idx)}
	case "verif.local/vrt.Assume":
		c := args[0].(*term.T)
		if c.IsFalse() {
			panic(pathEnd{"assume false"})
		}
		if !c.IsTrue() {
			m.assume(c)
			if !m.procMode {
				if r := m.feasible(f.True()); r == 0 {
					panic(pathEnd{"assume infeasible"})
				}
			}
		}
		return &modelRes{}
	case "verif.local/vrt.Assert":
		m.doAssert(constStr(args[0]), args[1].(*term.T))
		return &modelRes{}
	case "verif.local/vrt.Arena":
		if m.procMode {
			unsupported("vrt.Arena inside a goroutine")
		}
		t := fn.TypeArgs()[0]
		n := m.constInt(args[0])
		ar := &Arena{Name: fmt.Sprintf("ar%d", len(m.W.Arenas)), T: t, Fn: constStr(args[1])}
		for i := 0; i < n; i++ {
			ar.Slots = append(ar.Slots, m.newObject(t, m.zero(t), fmt.Sprintf("%s.slot%d", ar.Name, i)))
		}
		m.W.Arenas = append(m.W.Arenas, ar)
		return &modelRes{}
	case "(*sync.Map).Load", "(*sync.Map).Store", "(*sync.Map).LoadOrStore", "(*sync.Map).Delete", "(*sync.Map).LoadAndDelete":
		// a map from concrete keys to values, kept per sync.Map cell for the run of
		// the harness (sequential code only)
		if m.procMode {
			unsupported("sync.Map inside a goroutine under BMC")
		}
		pp := args[0].(*PtrV)
		if pp.Obj == nil {
			m.goPanic("nil pointer dereference")
		}
		ck := cellKey(pp.Obj, pp.Path)
		if m.syncMaps == nil {
			m.syncMaps = map[string]*MapObj{}
		}
		mo := m.syncMaps[ck]
		if mo == nil {
			mo = &MapObj{K: map[string]Value{}, V: map[string]Value{}}
			m.syncMaps[ck] = mo
		}
		key := m.mapKey(args[1])
		old, found := mo.V[key]
		if !found {
			old = &IfaceV{}
		}
		put := func(v Value) {
			if !found {
				mo.Keys = append(mo.Keys, key)
				mo.K[key] = args[1]
			}
			mo.V[key] = v
		}
		del := func() {
			if found {
				delete(mo.V, key)
				delete(mo.K, key)
				for i, k := range mo.Keys {
					if k == key {
						mo.Keys = append(mo.Keys[:i:i], mo.Keys[i+1:]...)
						break
					}
				}
			}
		}
		switch o.Name() {
		case "Load":
			return ret(TupleV{old, f.BoolC(found)})
		case "Store":
			put(args[2])
			return ret(nil)
		case "LoadOrStore":
			if found {
				return ret(TupleV{old, f.True()})
			}
			put(args[2])
			return ret(TupleV{args[2], f.False()})
		case "Delete":
			del()
			return ret(nil)
		default:
			del()
			return ret(TupleV{old, f.BoolC(found)})
		}
	case "(*sync.Pool).Put":
		// with pool reuse modelled (job parameter pool=1) the slot is marked as pooled
		if m.procMode && m.W.Params["pool"] == 1 {
			if iv, ok := args[1].(*IfaceV); ok {
				if p, ok := iv.V.(*PtrV); ok && p.Arena != nil && p.Arena.Pooled != nil {
					for i := range p.Arena.Slots {
						cur := p.Arena.Pooled[i]
						if u, ok := m.pathUpd[cur]; ok {
							cur = u
						}
						m.pathUpd[p.Arena.Pooled[i]] = f.Ite(f.Eq(p.Idx, f.IntC(int64(i))), f.True(), cur)
					}
				}
			}
		}
		return &modelRes{}
	case "(*sync.Pool).Get":
		// default: "always fresh" (the pool's New function is called). With job
		// parameter pool=1: Get returns EITHER a fresh object OR ANY object that was
		// Put before (the solver's choice), stale contents included.
		pp := args[0].(*PtrV)
		pool := m.load(pp).(*StructV)
		var newFn *FuncV
		pt := under(getTypeAt(pp.Obj.T, pp.Path)).(*types.Struct)
		for i := 0; i < pt.NumFields(); i++ {
			if pt.Field(i).Name() == "New" {
				newFn, _ = pool.F[i].(*FuncV)
			}
		}
		if m.procMode && m.W.Params["pool"] == 1 {
			for _, ar := range m.W.Arenas {
				if ar.Pooled == nil {
					continue
				}
				k := m.choice(1+len(ar.Slots), "pool.get")
				if k == 0 {
					break
				}
				cur := ar.Pooled[k-1]
				if u, ok := m.pathUpd[cur]; ok {
					cur = u
				}
				m.assume(cur) // only a slot that is in the pool
				m.pathUpd[ar.Pooled[k-1]] = f.False()
				return &modelRes{v: &IfaceV{Dyn: types.NewPointer(ar.T), V: &PtrV{Arena: ar, Idx: f.IntC(int64(k - 1))}}}
			}
		}
		if newFn == nil {
			return &modelRes{v: &IfaceV{}}
		}
		return &modelRes{v: m.callAndRun(newFn, nil)}
	case "verif.local/vrt.OffsetOf":
		// byte offset of a sub-object inside an object, from two pointers into it
		bp, ok1 := args[0].(*IfaceV).V.(*PtrV)
		fp, ok2 := args[1].(*IfaceV).V.(*PtrV)
		if !ok1 || !ok2 || bp.Obj != fp.Obj || bp.Obj == nil {
			unsupported("vrt.OffsetOf needs two pointers into the same object")
		}
		return &modelRes{v: f.Sub(m.symOffsetOf(fp.Obj.T, fp.Path), m.symOffsetOf(bp.Obj.T, bp.Path))}
	case "verif.local/vrt.Pace":
		return &modelRes{}
	case "verif.local/vrt.Cover":
		m.doCover(constStr(args[0]))
		return &modelRes{}
	case "verif.local/vrt.UF1":
		return &modelRes{v: f.App(constStr(args[0]), term.BV(64), args[1].(*term.T))}
	case "verif.local/vrt.UF2":
		return &modelRes{v: f.App(constStr(args[0]), term.BV(64), args[1].(*term.T), args[2].(*term.T))}
	case "verif.local/vrt.Pred1":
		return &modelRes{v: f.App(constStr(args[0]), term.Bool, args[1].(*term.T))}
	case "verif.local/vrt.Pred2":
		return &modelRes{v: f.App(constStr(args[0]), term.Bool, args[1].(*term.T), args[2].(*term.T))}
	case "verif.local/vrt.Same":
		return &modelRes{v: m.same(args[0], args[1])}
	case "verif.local/vrt.Named":
		y := m.freshVar(constStr(args[0]), term.BV(64))
		m.assume(f.Eq(y, args[1].(*term.T)))
		return &modelRes{v: y}
	case "verif.local/vrt.And":
		return &modelRes{v: f.And(args[0].(*term.T), args[1].(*term.T))}
	case "verif.local/vrt.Or":
		return &modelRes{v: f.Or(args[0].(*term.T), args[1].(*term.T))}
	case "verif.local/vrt.Not":
		return &modelRes{v: f.Not(args[0].(*term.T))}
	case "verif.local/vrt.Implies":
		return &modelRes{v: f.Implies(args[0].(*term.T), args[1].(*term.T))}
	case "verif.local/vrt.Ite":
		return &modelRes{v: m.merge(args[0].(*term.T), args[1], args[2])}
	case "verif.local/vrt.All":
		sl := args[0].(*SliceV)
		cs := []*term.T{}
		for i := 0; i < sl.Len; i++ {
			cs = append(cs, m.load(&PtrV{Obj: sl.Obj, Path: []int{sl.Off + i}}).(*term.T))
		}
		return &modelRes{v: f.And(cs...)}
	case "verif.local/vrt.Any":
		sl := args[0].(*SliceV)
		cs := []*term.T{}
		for i := 0; i < sl.Len; i++ {
			cs = append(cs, m.load(&PtrV{Obj: sl.Obj, Path: []int{sl.Off + i}}).(*term.T))
		}
		return &modelRes{v: f.Or(cs...)}
	case "verif.local/vrt.B2I":
		return &modelRes{v: f.Ite(args[0].(*term.T), f.BVC(64, 1), f.BVC(64, 0))}
	case "verif.local/vrt.Panics":
		fv := args[0].(*FuncV)
		if fv == nil || fv.Fn == nil {
			unsupported("Panics of non-closure")
		}
		fr := m.pushCall(fv.Fn, nil, fv.Free, res)
		fr.catch = true
		return &modelRes{pushed: true}
	case "verif.local/vrt.Go":
		p := &Proc{Name: constStr(args[0]), Fn: args[1].(*FuncV)}
		m.procs = append(m.procs, p)
		return &modelRes{}
	case "verif.local/vrt.Final":
		m.finals = append(m.finals, labeledFn{constStr(args[0]), args[1].(*FuncV)})
		return &modelRes{}
	case "verif.local/vrt.Invariant":
		m.invars = append(m.invars, labeledFn{constStr(args[0]), args[1].(*FuncV)})
		return &modelRes{}
	case "verif.local/vrt.LibExited", "verif.local/vrt.AllLibExited", "verif.local/vrt.Closed", "verif.local/vrt.ChanLen", "verif.local/vrt.Now",
		"verif.local/vrt.Exited", "verif.local/vrt.Cancelled", "verif.local/vrt.Daemon", "verif.local/vrt.TrySend",
		"verif.local/vrt.Sleep", "verif.local/vrt.Pending":
		if m.bmcHooks == nil {
			unsupported("%s outside BMC", name)
		}
		return m.bmcHooks.intrinsic(m, name, fn, args)

	// ---------------- fmt / errors / log
	case "fmt.Sprintf", "fmt.Sprint", "fmt.Sprintln":
		return ret(m.fmtModel(args))
	case "fmt.Errorf":
		return ret(m.newModelError(fmt.Sprint(m.fmtModel(args))))
	case "fmt.Println", "fmt.Printf", "fmt.Print":
		return ret(TupleV{f.BVC(64, 0), &IfaceV{}})
	case "log/slog.Error", "log/slog.Info", "log/slog.Warn", "log/slog.Debug",
		"log.Printf", "log.Println", "log.Print", "(*log.Logger).Printf", "(*log.Logger).Println", "(*log.Logger).Print":
		return ret(nil) // logging has an empty body (formatting is not the subject)
	case "errors.Is":
		// identity of the two error values (no Unwrap chains: the errors of the
		// harnesses and of the models do not wrap)
		t, _ := args[1].(*IfaceV)
		e, _ := args[0].(*IfaceV)
		if t == nil || e == nil {
			unsupported("errors.Is on %T / %T", args[0], args[1])
		}
		if t.Tag == nil && t.Dyn == nil {
			return ret(m.eq(e, &IfaceV{}))
		}
		return ret(m.eq(e, t))
	case "runtime.GOMAXPROCS", "runtime.NumCPU":
		// an arbitrary positive number of processors
		v := m.freshVar("gomaxprocs", term.BV(64))
		m.assume(f.SLe(f.BVC(64, 1), v))
		m.assume(f.SLe(v, f.BVC(64, 64)))
		return ret(v)
	case "errors.New":
		return ret(m.newModelError(fmt.Sprint(args[0])))

	// ---------------- reflect
	case "reflect.TypeOf":
		iv := args[0].(*IfaceV)
		if iv.Tag != nil {
			iv = m.concretizeIface(iv)
		}
		if iv.Dyn == nil {
			return ret(&IfaceV{})
		}
		return ret(m.rtypeIface(iv.Dyn))
	case "(reflect.StructTag).Get":
		return ret(reflect.StructTag(constStr(args[0])).Get(constStr(args[1])))
	case "(reflect.StructTag).Lookup":
		v, ok := reflect.StructTag(constStr(args[0])).Lookup(constStr(args[1]))
		return ret(TupleV{v, f.BoolC(ok)})
	case "(reflect.Kind).String":
		return ret(reflect.Kind(m.constInt(args[0])).String())

	// ---------------- strings
	case "strings.Split":
		parts := strings.Split(constStr(args[0]), constStr(args[1]))
		return ret(m.strSlice(parts))
	case "strings.HasPrefix":
		return ret(f.BoolC(strings.HasPrefix(constStr(args[0]), constStr(args[1]))))
	case "strings.HasSuffix":
		return ret(f.BoolC(strings.HasSuffix(constStr(args[0]), constStr(args[1]))))
	case "strings.Contains":
		return ret(f.BoolC(strings.Contains(constStr(args[0]), constStr(args[1]))))
	case "strings.TrimPrefix":
		return ret(strings.TrimPrefix(constStr(args[0]), constStr(args[1])))
	case "strings.TrimSuffix":
		return ret(strings.TrimSuffix(constStr(args[0]), constStr(args[1])))
	case "strings.ToLower":
		return ret(strings.ToLower(constStr(args[0])))
	case "strings.ToUpper":
		return ret(strings.ToUpper(constStr(args[0])))

	// ---------------- math
	case "math.Pow":
		return ret(f.F64C(math.Pow(m.constF(args[0]), m.constF(args[1]))))
	case "math.Log10":
		return ret(f.F64C(math.Log10(m.constF(args[0]))))
	case "math.Log":
		return ret(f.F64C(math.Log(m.constF(args[0]))))
	case "math.Floor":
		return ret(f.F64C(math.Floor(m.constF(args[0]))))

	// ---------------- time / rand (sequential use)
	case "time.Now":
		return ret(m.zero(fn.Signature.Results().At(0).Type()))
	case "(time.Time).UnixNano", "(time.Time).Unix":
		return ret(f.BVC(64, 0))
	case "math/rand.NewSource":
		return ret(&IfaceV{Dyn: modelObjT, V: &ModelV{Kind: "randsrc"}})
	case "math/rand.New":
		o := m.newObject(modelObjT, nil, "rand")
		_ = o
		return ret(&PtrV{Obj: m.newObject(fn.Signature.Results().At(0).Type().(*types.Pointer).Elem(), &ModelV{Kind: "rand"}, "rand.Rand")})
	case "(*math/rand.Rand).Int63":
		v := m.freshVar("rand.Int63", term.BV(64))
		m.assume(f.SLe(f.BVC(64, 0), v))
		return ret(v)

	// ---------------- context
	case "context.Background", "context.TODO":
		return ret(&IfaceV{Dyn: modelObjT, V: &ModelV{Kind: "ctx"}})
	case "context.WithCancel":
		ch := m.newChan(0, types.NewStruct(nil, nil), "ctx.Done")
		ch.IsCtx = true
		cv := &ChanV{C: ch}
		ctx := &IfaceV{Dyn: modelObjT, V: &ModelV{Kind: "ctx", Ch: ch}}
		return ret(TupleV{ctx, &FuncV{Builtin: "cancel", Data: cv}})

	// ---------------- sync/atomic typed integers: plain cell operations; in a
	// goroutine the call is a visible step of its own (bmc hooks), so the
	// read-modify-write below is atomic and interleaves with everything else
	case "(*sync/atomic.Int64).Store", "(*sync/atomic.Int32).Store", "(*sync/atomic.Uint64).Store", "(*sync/atomic.Uint32).Store",
		"(*sync/atomic.Int64).Load", "(*sync/atomic.Int32).Load", "(*sync/atomic.Uint64).Load", "(*sync/atomic.Uint32).Load",
		"(*sync/atomic.Int64).Add", "(*sync/atomic.Int32).Add", "(*sync/atomic.Uint64).Add", "(*sync/atomic.Uint32).Add":
		cell := atomicCell(o, args[0])
		switch o.Name() {
		case "Store":
			m.store(cell, args[1])
			return ret(nil)
		case "Load":
			return ret(m.load(cell))
		default:
			nv := f.Add(m.load(cell).(*term.T), args[1].(*term.T))
			m.store(cell, nv)
			return ret(nv)
		}

	// ---------------- sync
	case "(*sync.WaitGroup).Add", "(*sync.WaitGroup).Done", "(*sync.WaitGroup).Wait", "(*sync.WaitGroup).Go":
		if m.bmcHooks == nil {
			unsupported("%s outside BMC", name)
		}
		return m.bmcHooks.intrinsic(m, name, fn, args)
	case "(*sync.Mutex).Lock", "(*sync.RWMutex).Lock", "(*sync.Mutex).Unlock", "(*sync.RWMutex).Unlock", "(*sync.RWMutex).RLock", "(*sync.RWMutex).RUnlock":
		if m.bmcHooks == nil {
			return ret(nil) // sequential code, one thread: locks never contend
		}
		return m.bmcHooks.intrinsic(m, name, fn, args)
	case "time.Sleep", "time.After":
		if m.bmcHooks == nil {
			unsupported("%s outside BMC", name)
		}
		return m.bmcHooks.intrinsic(m, name, fn, args)
	}
	return nil
}

// atomicCell is the address of the value field of a sync/atomic typed integer.
func atomicCell(fn *ssa.Function, recv Value) *PtrV {
	p, ok := recv.(*PtrV)
	if !ok || p.IsNil() {
		unsupported("sync/atomic receiver is not a plain pointer")
	}
	pt, ok := under(fn.Signature.Recv().Type()).(*types.Pointer)
	if !ok {
		unsupported("sync/atomic receiver type")
	}
	st, ok := under(pt.Elem()).(*types.Struct)
	if !ok {
		unsupported("sync/atomic receiver type")
	}
	for i := 0; i < st.NumFields(); i++ {
		if st.Field(i).Name() == "v" {
			return p.sub(i)
		}
	}
	unsupported("sync/atomic value field not found")
	return nil
}

func isAtomicModel(name string) bool {
	return strings.HasPrefix(name, "(*sync/atomic.Int") || strings.HasPrefix(name, "(*sync/atomic.Uint")
}

func (m *Machine) constF(v Value) float64 {
	t := v.(*term.T)
	if !t.IsConst() {
		unsupported("math function on symbolic float")
	}
	return t.F
}

func (m *Machine) strSlice(parts []string) Value {
	elems := make([]Value, len(parts))
	for i, p := range parts {
		elems[i] = p
	}
	st := types.Typ[types.String]
	o := m.newObject(types.NewArray(st, int64(len(parts))), &ArrayV{E: elems}, "strs")
	return &SliceV{Obj: o, Len: len(parts), Cap: len(parts), ElemT: st}
}

func (m *Machine) fmtModel(args []Value) Value {
	// formatting is never the subject: keep the format string as the content
	if len(args) > 0 {
		if s, ok := args[0].(string); ok {
			return "<fmt:" + s + ">"
		}
	}
	return "<fmt>"
}

func (m *Machine) logChoice(name string, v int) {
	m.choiceSeq = append(m.choiceSeq, [2]string{name, fmt.Sprint(v)})
	if m.choiceLog == nil {
		m.choiceLog = map[string]string{}
	}
	n := 0
	for {
		k := fmt.Sprintf("%s#%d", name, n)
		if _, ok := m.choiceLog[k]; !ok {
			m.choiceLog[k] = fmt.Sprint(v)
			return
		}
		n++
	}
}

func (m *Machine) freshStr(name string, max int) Value {
	idx := m.F.Fresh("str:"+name, term.Bool)
	return m.freshStrAt(name+strings.TrimPrefix(idx.Name, "str:"+name), max)
}

// freshOf builds an arbitrary value of type t; leaf variables are named path.
func (m *Machine) freshOf(t types.Type, path string) Value {
	f := m.F
	mk := func(s term.Sort) *term.T {
		v := f.Var(path, s)
		m.inputs = append(m.inputs, v)
		return v
	}
	switch u := under(t).(type) {
	case *types.Basic:
		if bits, _, ok := intBits(t); ok {
			return mk(term.BV(bits))
		}
		if s, ok := isFloat(t); ok {
			return mk(s)
		}
		if isBool(t) {
			return mk(term.Bool)
		}
		if isString(t) {
			return m.freshStrAt(path, 2)
		}
		if u.Kind() == types.Complex128 || u.Kind() == types.Complex64 {
			return &StructV{F: []Value{f.Var(path+".re", term.F64), f.Var(path+".im", term.F64)}}
		}
		if u.Kind() == types.UnsafePointer {
			return &PtrV{}
		}
	case *types.Struct:
		s := &StructV{F: make([]Value, u.NumFields())}
		for i := range s.F {
			s.F[i] = m.freshOf(u.Field(i).Type(), path+"."+u.Field(i).Name())
		}
		return s
	case *types.Array:
		a := &ArrayV{E: make([]Value, int(u.Len()))}
		for i := range a.E {
			a.E[i] = m.freshOf(u.Elem(), fmt.Sprintf("%s.%d", path, i))
		}
		return a
	case *types.Pointer:
		o := m.newObject(u.Elem(), m.freshOf(u.Elem(), path+".*"), "fresh:"+path)
		return &PtrV{Obj: o}
	case *types.Slice:
		o := m.newObject(types.NewArray(u.Elem(), 1), &ArrayV{E: []Value{m.freshOf(u.Elem(), path+".0")}}, "fresh:"+path)
		return &SliceV{Obj: o, Len: 1, Cap: 1, ElemT: u.Elem()}
	case *types.Interface:
		if u.NumMethods() == 0 {
			return &IfaceV{Dyn: types.Typ[types.Int], V: mk(term.BV(64))}
		}
		return &IfaceV{}
	case *types.Map:
		m.nmap++
		return &MapV{M: &MapObj{ID: m.nmap, K: map[string]Value{}, V: map[string]Value{}}}
	case *types.Chan:
		return &ChanV{}
	case *types.Signature:
		return (*FuncV)(nil)
	}
	unsupported("Fresh of type %s", t)
	return nil
}

func (m *Machine) freshStrAt(path string, max int) Value {
	f := m.F
	s := &SymStr{Len: f.Var(path+".len", term.BV(64))}
	m.inputs = append(m.inputs, s.Len)
	m.assume(f.ULe(s.Len, f.BVC(64, uint64(max))))
	for i := 0; i < max; i++ {
		b := f.Var(fmt.Sprintf("%s.b%d", path, i), term.BV(8))
		m.inputs = append(m.inputs, b)
		m.assume(f.Or(f.ULt(f.BVC(64, uint64(i)), s.Len), f.Eq(b, f.BVC(8, 0))))
		s.Bytes = append(s.Bytes, b)
	}
	return s
}

func (m *Machine) modelMethod(o *ModelV, name string, args []Value) Value {
	f := m.F
	switch o.Kind + "." + name {
	case "ctx.Done":
		if o.Ch == nil {
			return &ChanV{} // Background: nil channel, never ready
		}
		return &ChanV{C: o.Ch}
	case "ctx.Err":
		if o.Ch == nil {
			return &IfaceV{}
		}
		if m.W.CtxCanceled == nil {
			if m.procMode {
				unsupported("ctx.Err first called inside a goroutine (the error value must exist at set-up)")
			}
			m.W.CtxCanceled = m.newModelError("context canceled")
		}
		if !m.procMode {
			if o.Ch.Closed {
				return m.W.CtxCanceled
			}
			return &IfaceV{}
		}
		// inside a goroutine: an atomic read of the context's state at this step
		cl := m.bmcHooks.intrinsic(m, "verif.local/vrt.Closed", nil, []Value{&IfaceV{V: &ChanV{C: o.Ch}}}).v.(*term.T)
		m.touched = append(m.touched, o.Ch)
		if m.branch(cl, "ctx.Err") {
			return m.W.CtxCanceled
		}
		return &IfaceV{}
	case "ctx.Value":
		return &IfaceV{}
	case "randsrc.Int63", "rand.Int63":
		v := m.freshVar("rand.Int63", term.BV(64))
		m.assume(f.SLe(f.BVC(64, 0), v))
		return v
	}
	unsupported("model method %s.%s", o.Kind, name)
	return nil
}
