package interp

import (
	"fmt"
	"go/constant"
	"go/token"
	"go/types"
	"os"
	"strings"

	"golang.org/x/tools/go/ssa"

	"verif.local/engine/smt"
	"verif.local/engine/term"
)

// World is shared by all paths of a job.
type World struct {
	Prog       *ssa.Program
	Sizes      types.Sizes
	dynTypes   []types.Type
	Chans      []*Chan
	Arenas     []*Arena
	Params     map[string]int
	Objs       []*Object
	WG         map[string]int64 // WaitGroup counters after set-up
	Timers     []*Chan
	CtxCanceled Value // the one error value ctx.Err() returns once the context is cancelled
	symLeaves  map[string][2]*term.T
	symLayouts map[string]*symLayout
	// statistics
	FuncsSeen map[string]int
	StubsUsed map[string]int
}

func (w *World) dynTag(t types.Type) int {
	for i, d := range w.dynTypes {
		if types.Identical(d, t) {
			return i + 1
		}
	}
	w.dynTypes = append(w.dynTypes, t)
	return len(w.dynTypes)
}

func (w *World) ifaceFromTag(m *Machine, tag int, pay *term.T) Value {
	if tag < 1 || tag > len(w.dynTypes) {
		unsupported("interface tag %d out of table", tag)
	}
	t := w.dynTypes[tag-1]
	sorts := m.leafSorts(t, nil)
	var leaves []*term.T
	if len(sorts) == 1 {
		switch sorts[0].K {
		case term.KBV:
			leaves = []*term.T{m.F.Extract(sorts[0].W-1, 0, pay)}
		case term.KBool:
			leaves = []*term.T{m.F.Not(m.F.Eq(pay, m.F.BVC(64, 0)))}
		}
	}
	if len(leaves) != len(sorts) {
		unsupported("interface payload of %s", t)
	}
	pos := 0
	return &IfaceV{Dyn: t, V: m.unflatten(t, leaves, &pos)}
}

func (w *World) arenaFor(t types.Type) *Arena {
	for _, a := range w.Arenas {
		if types.Identical(a.T, t) {
			return a
		}
	}
	return nil
}

var debugBranch = os.Getenv("VERIF_DEBUG") != ""

type deferred struct {
	fn   Value // *FuncV or *ssa.Builtin
	args []Value
	call *ssa.CallCommon
}

type Frame struct {
	fn        *ssa.Function
	blk       *ssa.BasicBlock
	prev      *ssa.BasicBlock
	idx       int
	regs      map[ssa.Value]Value
	free      []Value
	defers    []*deferred
	callInstr ssa.Value // register in the caller receiving the result
	onRet     func(Value)
	catch     bool // vrt.Panics boundary
	barrier   bool // nested-run boundary
	visited   map[*ssa.BasicBlock]int
	visitDec  map[*ssa.BasicBlock]int
}

type goPanicSig struct {
	msg string
	val Value
}

type pathEnd struct{ reason string }

// CrossQuery is a discharged assertion query kept for the cross-solver check.
type CrossQuery struct {
	F     *term.T
	Res   smt.Result
	Label string
}

// Violation describes a failed assertion (with a model when available).
type Violation struct {
	Label    string
	Detail   string
	Vals     map[string]string
	UFs      map[string]string
	Decision []int
	Trace    []string
}

type Machine struct {
	W *World
	F *term.Factory
	S *smt.Solver

	stack []*Frame

	pc      []*term.T
	pcSent  int
	prefix  []int
	dec     []int
	decName []string
	pending [][]int
	known   map[int]bool

	globals   map[*ssa.Global]*Object
	initDone  map[*ssa.Package]bool
	nobj      int
	nmap      int
	inSetup   bool
	trackObjs bool

	// BMC extraction
	procMode     bool
	stopped      bool
	symDecisions int
	escaped      map[*Object]bool
	syncMaps     map[string]*MapObj
	cut          bool
	skipVis      bool // execute the pending visible instruction as a step of its own (atomic op, racy load/store)
	overlay      map[*Object]Value
	symHeap      map[*Object]Value
	reads        map[string]bool
	writes       map[string]bool
	trackRW      bool
	asserts      []assertRec // BMC: assertions met on the path
	covers       []string
	inputs       []*term.T // fresh variables created on this path
	procs        []*Proc   // setup: registered processes
	finals       []labeledFn
	invars       []labeledFn
	curProc      *Proc
	pathUpd      map[*term.T]*term.T
	bmcHooks     *bmcHooks

	choiceLog    map[string]string // name#n -> value (for replay files)
	onNontrivial func()
	choiceSeq    [][2]string
	constCache   map[*ssa.Const]Value
	arenaLoadFn  func(*PtrV) Value
	chanLenFn    func(*Chan) Value
	outcomeUpd   map[*term.T]*term.T // channel effects of the outcome this path started with (BMC)
	touched      []*Chan
	arenaAllocFn func(types.Type, *Frame) Value
	arenaStoreFn func(*PtrV, Value)
	fuel         int

	R *Results
}

type assertRec struct {
	label string
	cond  *term.T // condition under path guard
}

// Results accumulates what a job did.
type Results struct {
	Paths         int
	Infeasible    int
	AssertsHit    map[string]int
	AssertsTriv   map[string]int
	Covers        map[string]int
	Violations    []*Violation
	Unsupported   []string
	Unknown       []string
	Samples       []string
	Nontrivial    int
	Syntactic     int // assertions decided by term normalisation (condition folded to true)
	CrossSample   []CrossQuery
	CrossChecked  int
	CrossDisagree int
	CrossUnknown  int
	Funcs         map[string]int
	FuncPtr       map[*ssa.Function]int
	Stubs         map[string]int
	MaxDepth      int
}

func NewResults() *Results {
	return &Results{AssertsHit: map[string]int{}, AssertsTriv: map[string]int{}, Covers: map[string]int{}, Funcs: map[string]int{}, FuncPtr: map[*ssa.Function]int{}, Stubs: map[string]int{}}
}

func (m *Machine) top() *Frame { return m.stack[len(m.stack)-1] }

func (m *Machine) goPanic(format string, a ...interface{}) {
	panic(goPanicSig{msg: fmt.Sprintf(format, a...)})
}

// ---- path condition and decisions

func (m *Machine) assume(c *term.T) {
	if c.IsTrue() {
		return
	}
	m.pc = append(m.pc, c)
	if m.known == nil {
		m.known = map[int]bool{}
	}
	m.learn(c)
}

// learn records literals implied syntactically by the path condition so that
// re-evaluating the same condition needs no solver call.
func (m *Machine) learn(c *term.T) {
	switch c.Op {
	case term.OAnd:
		for _, a := range c.A {
			m.learn(a)
		}
	case term.ONot:
		m.known[c.A[0].ID] = false
		if c.A[0].Op == term.OOr {
			for _, a := range c.A[0].A {
				m.learn(m.F.Not(a))
			}
		}
	default:
		m.known[c.ID] = true
	}
}

func (m *Machine) flushPC() {
	for ; m.pcSent < len(m.pc); m.pcSent++ {
		m.S.Assert(m.pc[m.pcSent])
	}
}

func (m *Machine) feasible(extra *term.T) smt.Result {
	for _, c := range m.pc {
		if c.IsFalse() {
			return smt.Unsat
		}
	}
	if extra.IsFalse() {
		return smt.Unsat
	}
	m.flushPC()
	r, err := m.S.CheckWith(false, extra)
	if err != nil {
		m.R.Unknown = append(m.R.Unknown, "solver: "+err.Error())
		return smt.Unknown
	}
	return r
}

// branch decides a symbolic condition, forking the exploration if both sides
// are feasible.
func (m *Machine) branch(c *term.T, what string) bool {
	if c.IsConst() {
		return c.V == 1
	}
	m.symDecisions++
	if v, ok := m.known[c.ID]; ok {
		return v
	}
	if c.Op == term.ONot {
		if v, ok := m.known[c.A[0].ID]; ok {
			return !v
		}
	}
	d := len(m.dec)
	if d < len(m.prefix) {
		v := m.prefix[d]
		m.dec = append(m.dec, v)
		if v == 1 {
			m.assume(c)
		} else {
			m.assume(m.F.Not(c))
		}
		return v == 1
	}
	if debugBranch {
		fmt.Fprintf(os.Stderr, "branch #%d %s :: %s @ %s\n", d, what, m.F.String(c), m.where())
	}
	rt := m.feasible(c)
	rf := smt.Sat // the path condition is feasible: if c is impossible, not-c is possible
	if rt != smt.Unsat {
		rf = m.feasible(m.F.Not(c))
	}
	if rt == smt.Unknown || rf == smt.Unknown {
		m.R.Unknown = append(m.R.Unknown, "branch feasibility unknown at "+what)
	}
	switch {
	case rt != smt.Unsat && rf != smt.Unsat:
		alt := append(append([]int(nil), m.dec...), 0)
		m.pending = append(m.pending, alt)
		m.dec = append(m.dec, 1)
		m.assume(c)
		return true
	case rt != smt.Unsat:
		m.dec = append(m.dec, 1)
		m.assume(c)
		return true
	case rf != smt.Unsat:
		m.dec = append(m.dec, 0)
		m.assume(m.F.Not(c))
		return false
	}
	panic(pathEnd{"infeasible"})
}

// choice forks n ways unconditionally.
func (m *Machine) choice(n int, name string) int {
	if n <= 0 {
		panic(pathEnd{"infeasible"})
	}
	d := len(m.dec)
	v := 0
	if d < len(m.prefix) {
		v = m.prefix[d]
	} else {
		for i := n - 1; i >= 1; i-- {
			alt := append(append([]int(nil), m.dec...), i)
			m.pending = append(m.pending, alt)
		}
	}
	m.dec = append(m.dec, v)
	return v
}

// ---- running

func (m *Machine) pushCall(fn *ssa.Function, args []Value, free []Value, callInstr ssa.Value) *Frame {
	if len(fn.Blocks) == 0 {
		unsupported("call of function without body: %s", fn)
	}
	if len(m.stack) > 400 {
		unsupported("call stack too deep at %s", fn)
	}
	fr := &Frame{fn: fn, blk: fn.Blocks[0], regs: make(map[ssa.Value]Value, 16), free: free, callInstr: callInstr}
	for i, p := range fn.Params {
		if i < len(args) {
			fr.regs[p] = args[i]
		}
	}
	m.stack = append(m.stack, fr)
	if len(m.stack) > m.R.MaxDepth {
		m.R.MaxDepth = len(m.stack)
	}
	m.R.FuncPtr[fn]++
	return fr
}

// callAndRun runs fn to completion (nested) and returns its result.
func (m *Machine) callAndRun(fv *FuncV, args []Value) Value {
	if fv == nil {
		m.goPanic("call of nil function")
	}
	if fv.Fn == nil {
		return m.callBuiltinClosure(fv, args)
	}
	if mod := m.model(fv.Fn, args, nil); mod != nil {
		return mod.v
	}
	var res Value
	base := len(m.stack)
	fr := m.pushCall(fv.Fn, args, fv.Free, nil)
	fr.barrier = true
	fr.onRet = func(v Value) { res = v }
	m.run(base)
	return res
}

func (m *Machine) run(base int) {
	for len(m.stack) > base && !m.stopped {
		m.stepSafe(base)
	}
}

func (m *Machine) stepSafe(base int) {
	defer func() {
		if r := recover(); r != nil {
			gp, ok := r.(goPanicSig)
			if !ok {
				panic(r)
			}
			// unwind to the nearest catch frame above base
			for i := len(m.stack) - 1; i >= base; i-- {
				fr := m.stack[i]
				if fr.catch {
					m.stack = m.stack[:i]
					if fr.onRet != nil {
						fr.onRet(m.F.True())
					} else if fr.callInstr != nil {
						m.top().regs[fr.callInstr] = m.F.True()
					}
					return
				}
				if fr.barrier && i > base {
					break
				}
			}
			panic(gp)
		}
	}()
	m.step()
}

func (m *Machine) get(fr *Frame, v ssa.Value) Value {
	switch x := v.(type) {
	case *ssa.Const:
		return m.constVal(x)
	case *ssa.Function:
		return &FuncV{Fn: x}
	case *ssa.Global:
		return &PtrV{Obj: m.global(x)}
	case *ssa.Builtin:
		return x
	case *ssa.FreeVar:
		for i, fv := range fr.fn.FreeVars {
			if fv == x {
				return fr.free[i]
			}
		}
		unsupported("free variable %s not bound", x.Name())
	}
	r, ok := fr.regs[v]
	if !ok {
		unsupported("register %s (%T) of %s undefined", v.Name(), v, fr.fn)
	}
	return r
}

func (m *Machine) constVal(c *ssa.Const) Value {
	if m.constCache != nil {
		if v, ok := m.constCache[c]; ok {
			return v
		}
		v := m.constVal0(c)
		m.constCache[c] = v
		return v
	}
	return m.constVal0(c)
}

func (m *Machine) constVal0(c *ssa.Const) Value {
	t := c.Type()
	if c.Value == nil {
		return m.zero(t)
	}
	f := m.F
	if bits, _, ok := intBits(t); ok {
		if i, exact := constant.Int64Val(constant.ToInt(c.Value)); exact {
			return f.BVC(bits, uint64(i))
		}
		u, _ := constant.Uint64Val(constant.ToInt(c.Value))
		return f.BVC(bits, u)
	}
	if s, ok := isFloat(t); ok {
		v, _ := constant.Float64Val(c.Value)
		if s.K == term.KF32 {
			return f.F32C(v)
		}
		return f.F64C(v)
	}
	if isBool(t) {
		return f.BoolC(constant.BoolVal(c.Value))
	}
	if isString(t) {
		return constant.StringVal(c.Value)
	}
	if b, ok := under(t).(*types.Basic); ok && (b.Kind() == types.Complex128 || b.Kind() == types.Complex64) {
		re, _ := constant.Float64Val(constant.Real(c.Value))
		im, _ := constant.Float64Val(constant.Imag(c.Value))
		return &StructV{F: []Value{f.F64C(re), f.F64C(im)}}
	}
	unsupported("constant %s of type %s", c, t)
	return nil
}

func (m *Machine) global(g *ssa.Global) *Object {
	if o, ok := m.globals[g]; ok {
		return o
	}
	// make sure the package is initialised (only interpretable packages)
	if g.Pkg != nil && !m.initDone[g.Pkg] {
		m.initDone[g.Pkg] = true
		if interpretablePkg(g.Pkg.Pkg.Path()) && !strings.HasPrefix(g.Pkg.Pkg.Path(), "verif.local/") {
			if initf := g.Pkg.Func("init"); initf != nil && len(initf.Blocks) > 0 {
				saveSetup := m.inSetup
				m.callAndRun(&FuncV{Fn: initf}, nil)
				m.inSetup = saveSetup
			}
		}
		if o, ok := m.globals[g]; ok {
			return o
		}
	}
	et := g.Type().(*types.Pointer).Elem()
	o := m.newObject(et, m.zero(et), "global:"+g.Name())
	m.globals[g] = o
	return o
}

func (m *Machine) jump(fr *Frame, to *ssa.BasicBlock) {
	from := fr.blk
	fr.prev = from
	fr.blk = to
	fr.idx = 0
	m.fuel--
	if m.fuel <= 0 {
		unsupported("fuel exhausted (unwinding bound) in %s", fr.fn)
	}
	if m.procMode {
		if fr.visited == nil {
			fr.visited = map[*ssa.BasicBlock]int{}
		}
		fr.visited[to]++
		if fr.visitDec == nil {
			fr.visitDec = map[*ssa.BasicBlock]int{}
		}
		// a local loop without a visible operation gets a silent cut-point, but only
		// if its iterations depend on symbolic decisions (concrete loops just run)
		if fr.visited[to] > 1 && (m.symDecisions > fr.visitDec[to] || fr.visited[to] > 200) {
			m.cut = true
		}
		fr.visitDec[to] = m.symDecisions
	}
	// phis
	var pidx int = -1
	for i, p := range to.Preds {
		if p == from {
			pidx = i
			break
		}
	}
	var vals []Value
	n := 0
	for _, in := range to.Instrs {
		phi, ok := in.(*ssa.Phi)
		if !ok {
			break
		}
		vals = append(vals, m.get(fr, phi.Edges[pidx]))
		n++
	}
	for i := 0; i < n; i++ {
		fr.regs[to.Instrs[i].(*ssa.Phi)] = vals[i]
	}
	fr.idx = n
}

func (m *Machine) ret(fr *Frame, v Value) {
	m.stack = m.stack[:len(m.stack)-1]
	if fr.catch {
		v = m.F.False()
	}
	if fr.onRet != nil {
		fr.onRet(v)
		return
	}
	if fr.callInstr != nil && len(m.stack) > 0 {
		m.top().regs[fr.callInstr] = v
	}
}

func (m *Machine) step() {
	fr := m.top()
	if fr.idx >= len(fr.blk.Instrs) {
		unsupported("fell off block in %s", fr.fn)
	}
	instr := fr.blk.Instrs[fr.idx]
	if m.procMode && m.bmcHooks != nil && (m.cut || (!m.skipVis && m.bmcHooks.visible(m, fr, instr))) {
		m.stopped = true
		return
	}
	m.skipVis = false
	fr.idx++
	switch in := instr.(type) {
	case *ssa.DebugRef:
	case *ssa.Alloc:
		et := in.Type().(*types.Pointer).Elem()
		var o *Object
		if m.procMode && m.bmcHooks != nil {
			o = m.bmcHooks.alloc(m, fr, in, et)
			if o == nil { // arena allocation
				fr.regs[in] = m.arenaAllocFn(et, fr)
				break
			}
		} else {
			o = m.newObject(et, m.zero(et), in.Comment)
		}
		if isHarnessFn(fr.fn) {
			o.Ghost = true // a harness variable (ghost state): never a data race of the library
		}
		fr.regs[in] = &PtrV{Obj: o}
	case *ssa.BinOp:
		fr.regs[in] = m.binop(in.Op, m.get(fr, in.X), m.get(fr, in.Y), in.X.Type(), in.Y.Type())
	case *ssa.UnOp:
		fr.regs[in] = m.unop(fr, in)
	case *ssa.Call:
		m.doCall(fr, in.Common(), in)
	case *ssa.ChangeInterface:
		fr.regs[in] = m.get(fr, in.X)
	case *ssa.ChangeType:
		fr.regs[in] = m.get(fr, in.X)
	case *ssa.Convert:
		fr.regs[in] = m.convert(m.get(fr, in.X), in.X.Type(), in.Type())
	case *ssa.MultiConvert:
		fr.regs[in] = m.convert(m.get(fr, in.X), in.X.Type(), in.Type())
	case *ssa.Defer:
		c := in.Common()
		d := &deferred{call: c}
		if c.IsInvoke() {
			unsupported("defer of interface method call")
		}
		d.fn = m.get(fr, c.Value)
		for _, a := range c.Args {
			d.args = append(d.args, m.get(fr, a))
		}
		fr.defers = append(fr.defers, d)
	case *ssa.RunDefers:
		if len(fr.defers) > 0 {
			d := fr.defers[len(fr.defers)-1]
			fr.defers = fr.defers[:len(fr.defers)-1]
			fr.idx-- // come back here until the list is empty
			m.invoke(fr, d.fn, d.args, nil, d.call)
		}
	case *ssa.Extract:
		fr.regs[in] = m.get(fr, in.Tuple).(TupleV)[in.Index]
	case *ssa.Field:
		fr.regs[in] = m.get(fr, in.X).(*StructV).F[in.Field]
	case *ssa.FieldAddr:
		p := m.get(fr, in.X).(*PtrV)
		if p.IsNil() {
			m.goPanic("nil pointer dereference (field address)")
		}
		fr.regs[in] = p.sub(in.Field)
	case *ssa.Index:
		fr.regs[in] = m.index(m.get(fr, in.X), m.get(fr, in.Index), in.X.Type())
	case *ssa.IndexAddr:
		fr.regs[in] = m.indexAddr(m.get(fr, in.X), m.get(fr, in.Index))
	case *ssa.Go:
		m.doGo(fr, in)
	case *ssa.If:
		c := m.get(fr, in.Cond).(*term.T)
		if m.branch(c, fr.fn.String()) {
			m.jump(fr, fr.blk.Succs[0])
		} else {
			m.jump(fr, fr.blk.Succs[1])
		}
	case *ssa.Jump:
		m.jump(fr, fr.blk.Succs[0])
	case *ssa.Lookup:
		fr.regs[in] = m.lookup(m.get(fr, in.X), m.get(fr, in.Index), in)
	case *ssa.MakeChan:
		sz := m.get(fr, in.Size).(*term.T)
		if !sz.IsConst() {
			unsupported("symbolic channel capacity")
		}
		fr.regs[in] = &ChanV{C: m.newChan(int(term.SignedVal(sz)), in.Type().Underlying().(*types.Chan).Elem(), fr.fn.Name())}
	case *ssa.MakeClosure:
		fv := &FuncV{Fn: in.Fn.(*ssa.Function)}
		for _, b := range in.Bindings {
			fv.Free = append(fv.Free, m.get(fr, b))
		}
		fr.regs[in] = fv
	case *ssa.MakeInterface:
		fr.regs[in] = m.makeIface(m.get(fr, in.X), in.X.Type())
	case *ssa.MakeMap:
		m.nmap++
		fr.regs[in] = &MapV{M: &MapObj{ID: m.nmap, K: map[string]Value{}, V: map[string]Value{}}}
	case *ssa.MakeSlice:
		l := m.get(fr, in.Len).(*term.T)
		c := m.get(fr, in.Cap).(*term.T)
		if !l.IsConst() || !c.IsConst() {
			unsupported("make slice with symbolic length")
		}
		et := in.Type().Underlying().(*types.Slice).Elem()
		fr.regs[in] = m.makeSlice(et, int(term.SignedVal(l)), int(term.SignedVal(c)))
	case *ssa.MapUpdate:
		m.mapUpdate(m.get(fr, in.Map), m.get(fr, in.Key), m.get(fr, in.Value))
	case *ssa.Next:
		fr.regs[in] = m.next(m.get(fr, in.Iter), in)
	case *ssa.Range:
		fr.regs[in] = m.rangeIter(m.get(fr, in.X))
	case *ssa.Panic:
		v := m.get(fr, in.X)
		panic(goPanicSig{msg: "panic: " + m.show(v), val: v})
	case *ssa.Phi:
		unsupported("phi reached directly")
	case *ssa.Return:
		var v Value
		switch len(in.Results) {
		case 0:
		case 1:
			v = m.get(fr, in.Results[0])
		default:
			tv := make(TupleV, len(in.Results))
			for i, r := range in.Results {
				tv[i] = m.get(fr, r)
			}
			v = tv
		}
		m.ret(fr, v)
	case *ssa.Select:
		m.doSelectSeq(fr, in)
	case *ssa.Send:
		m.chanSendSeq(m.get(fr, in.Chan).(*ChanV), m.get(fr, in.X))
	case *ssa.Slice:
		fr.regs[in] = m.slice(fr, in)
	case *ssa.SliceToArrayPointer:
		unsupported("slice to array pointer")
	case *ssa.Store:
		m.store(m.get(fr, in.Addr).(*PtrV), m.get(fr, in.Val))
	case *ssa.TypeAssert:
		fr.regs[in] = m.typeAssert(m.get(fr, in.X), in)
	default:
		unsupported("instruction %T", instr)
	}
}

func (m *Machine) makeIface(v Value, t types.Type) Value {
	if isIface(t) {
		return v
	}
	return &IfaceV{Dyn: t, V: v}
}

// ---- operators

func (m *Machine) binop(op token.Token, x, y Value, xt, yt types.Type) Value {
	f := m.F
	switch op {
	case token.EQL:
		return m.eq(x, y)
	case token.NEQ:
		return f.Not(m.eq(x, y))
	}
	if ax, ok := x.(*AddrV); ok {
		c, isT := y.(*term.T)
		if isT && !c.IsConst() && op == token.ADD && c.S == term.BV(64) {
			sym := c
			if ax.Sym != nil {
				sym = m.F.Add(ax.Sym, c)
			}
			return &AddrV{Obj: ax.Obj, Path: ax.Path, Off: ax.Off, Nil: ax.Nil, Sym: sym}
		}
		if isT && c.IsConst() && (op == token.ADD || op == token.SUB) {
			d := int64(c.V)
			if op == token.SUB {
				d = -d
			}
			return &AddrV{Obj: ax.Obj, Path: ax.Path, Off: ax.Off + d, Nil: ax.Nil, Sym: ax.Sym}
		}
		if ay, ok := y.(*AddrV); ok && op == token.ADD {
			_ = ay
		}
		unsupported("arithmetic %s on an address with a non-constant", op)
	}
	if ay, ok := y.(*AddrV); ok {
		c, isT := x.(*term.T)
		if isT && !c.IsConst() && op == token.ADD && c.S == term.BV(64) {
			sym := c
			if ay.Sym != nil {
				sym = m.F.Add(ay.Sym, c)
			}
			return &AddrV{Obj: ay.Obj, Path: ay.Path, Off: ay.Off, Nil: ay.Nil, Sym: sym}
		}
		if isT && c.IsConst() && op == token.ADD {
			return &AddrV{Obj: ay.Obj, Path: ay.Path, Off: ay.Off + int64(c.V), Nil: ay.Nil}
		}
		unsupported("arithmetic %s on an address", op)
	}
	if isString(xt) {
		return m.strop(op, x, y)
	}
	a, aok := x.(*term.T)
	b, bok := y.(*term.T)
	if !aok || !bok {
		unsupported("binop %s on %T, %T", op, x, y)
	}
	if a.S.K == term.KBool {
		switch op {
		case token.AND, token.LAND:
			return f.And(a, b)
		case token.OR, token.LOR:
			return f.Or(a, b)
		}
		unsupported("bool op %s", op)
	}
	if a.S.K == term.KF64 || a.S.K == term.KF32 {
		switch op {
		case token.ADD:
			return f.FAdd(a, b)
		case token.SUB:
			return f.FSub(a, b)
		case token.MUL:
			return f.FMul(a, b)
		case token.QUO:
			return f.FDiv(a, b)
		case token.LSS, token.LEQ, token.GTR, token.GEQ:
			l, r := a, b
			if op == token.GTR || op == token.GEQ {
				l, r = b, a
			}
			fop := term.OFLt
			if op == token.LEQ || op == token.GEQ {
				fop = term.OFLe
			}
			if rw := m.fpMonoRewrite(fop, l, r); rw != nil {
				return rw
			}
			if fop == term.OFLt {
				return f.FLt(l, r)
			}
			return f.FLe(l, r)
		}
		unsupported("float op %s", op)
	}
	_, signed, _ := intBits(xt)
	w := a.S.W
	switch op {
	case token.ADD:
		return f.Add(a, b)
	case token.SUB:
		return f.Sub(a, b)
	case token.MUL:
		return f.Mul(a, b)
	case token.QUO, token.REM:
		if m.branch(f.Eq(b, f.BVC(w, 0)), "division by zero") {
			m.goPanic("integer divide by zero")
		}
		if op == token.QUO {
			if signed {
				return f.SDiv(a, b)
			}
			return f.UDiv(a, b)
		}
		if signed {
			return f.SRem(a, b)
		}
		return f.URem(a, b)
	case token.AND:
		return f.BAnd(a, b)
	case token.OR:
		return f.BOr(a, b)
	case token.XOR:
		return f.BXor(a, b)
	case token.AND_NOT:
		return f.BAnd(a, f.BNot(b))
	case token.SHL, token.SHR:
		_, ysigned, _ := intBits(yt)
		if ysigned {
			if m.branch(f.SLt(b, f.BVC(b.S.W, 0)), "negative shift") {
				m.goPanic("negative shift amount")
			}
		}
		// bring the count to x's width, saturating
		var cnt *term.T
		if b.S.W > w {
			big := f.ULe(f.BVC(b.S.W, uint64(w)), b)
			cnt = f.Ite(big, f.BVC(w, uint64(w)), f.Extract(w-1, 0, b))
		} else {
			cnt = f.ZExt(w, b)
		}
		if op == token.SHL {
			return f.Shl(a, cnt)
		}
		if signed {
			return f.AShr(a, cnt)
		}
		return f.LShr(a, cnt)
	case token.LSS:
		if signed {
			return f.SLt(a, b)
		}
		return f.ULt(a, b)
	case token.LEQ:
		if signed {
			return f.SLe(a, b)
		}
		return f.ULe(a, b)
	case token.GTR:
		if signed {
			return f.SLt(b, a)
		}
		return f.ULt(b, a)
	case token.GEQ:
		if signed {
			return f.SLe(b, a)
		}
		return f.ULe(b, a)
	}
	unsupported("binop %s", op)
	return nil
}

func (m *Machine) strop(op token.Token, x, y Value) Value {
	f := m.F
	xs, xc := x.(string)
	ys, yc := y.(string)
	if xc && yc {
		switch op {
		case token.ADD:
			return xs + ys
		case token.LSS:
			return f.BoolC(xs < ys)
		case token.LEQ:
			return f.BoolC(xs <= ys)
		case token.GTR:
			return f.BoolC(xs > ys)
		case token.GEQ:
			return f.BoolC(xs >= ys)
		}
	}
	if op == token.ADD {
		unsupported("concatenation of symbolic strings")
	}
	a, b := m.asSym(x, 0), m.asSym(y, 0)
	switch op {
	case token.LSS:
		return m.symStrLt(a, b)
	case token.GTR:
		return m.symStrLt(b, a)
	case token.LEQ:
		return f.Not(m.symStrLt(b, a))
	case token.GEQ:
		return f.Not(m.symStrLt(a, b))
	}
	unsupported("string op %s", op)
	return nil
}

func (m *Machine) unop(fr *Frame, in *ssa.UnOp) Value {
	f := m.F
	x := m.get(fr, in.X)
	switch in.Op {
	case token.MUL:
		p, ok := x.(*PtrV)
		if !ok {
			unsupported("load through %T", x)
		}
		return m.load(p)
	case token.NOT:
		return f.Not(x.(*term.T))
	case token.SUB:
		t := x.(*term.T)
		if t.S.K == term.KF64 || t.S.K == term.KF32 {
			if t.IsConst() {
				if t.S.K == term.KF32 {
					return f.F32C(-t.F)
				}
				return f.F64C(-t.F)
			}
			unsupported("negation of symbolic float")
		}
		return f.Neg(t)
	case token.XOR:
		return f.BNot(x.(*term.T))
	case token.ARROW:
		return m.chanRecvSeq(x.(*ChanV), in.CommaOk, in.Type())
	}
	unsupported("unop %s", in.Op)
	return nil
}

func (m *Machine) convert(v Value, from, to types.Type) Value {
	f := m.F
	fu, tu := under(from), under(to)
	// pointer <-> unsafe.Pointer
	if fb, ok := fu.(*types.Basic); ok && fb.Kind() == types.UnsafePointer {
		if _, ok := tu.(*types.Pointer); ok {
			return m.retype(v, to)
		}
		if tb, ok := tu.(*types.Basic); ok && tb.Kind() == types.Uintptr {
			switch p := v.(type) {
			case *PtrV:
				if p.IsNil() {
					return &AddrV{Nil: true}
				}
				if p.Arena != nil {
					unsupported("address of arena object")
				}
				return &AddrV{Obj: p.Obj, Path: p.Path}
			case *AddrV:
				return p
			}
		}
		if tb, ok := tu.(*types.Basic); ok && tb.Kind() == types.UnsafePointer {
			return v
		}
	}
	if tb, ok := tu.(*types.Basic); ok && tb.Kind() == types.UnsafePointer {
		switch v.(type) {
		case *PtrV, *AddrV:
			return v
		}
		if t, ok := v.(*term.T); ok && t.IsConst() && t.V == 0 {
			return &PtrV{}
		}
		unsupported("conversion of %T to unsafe.Pointer", v)
	}
	if _, ok := v.(*AddrV); ok {
		if b, _, ok := intBits(to); ok && b == 64 {
			return v
		}
		unsupported("conversion of an address to %s", to)
	}
	if tb, sgn, ok := intBits(to); ok {
		switch x := v.(type) {
		case *term.T:
			if x.S.K == term.KBV {
				_, fs, _ := intBits(from)
				_ = sgn
				if tb <= x.S.W {
					return f.Extract(tb-1, 0, x)
				}
				if fs {
					return f.SExt(tb, x)
				}
				return f.ZExt(tb, x)
			}
			if x.IsConst() && (x.S.K == term.KF64 || x.S.K == term.KF32) {
				if sgn {
					return f.BVC(tb, uint64(int64(x.F)))
				}
				return f.BVC(tb, uint64(x.F))
			}
			unsupported("symbolic float to int conversion")
		}
	}
	if ts, ok := isFloat(to); ok {
		x := v.(*term.T)
		if x.S.K == term.KBV {
			_, fs, _ := intBits(from)
			return f.FFromBV(ts, x, fs)
		}
		if x.S == ts {
			return x
		}
		if x.IsConst() {
			if ts.K == term.KF32 {
				return f.F32C(x.F)
			}
			return f.F64C(x.F)
		}
		unsupported("symbolic float width conversion")
	}
	if isString(to) {
		switch x := v.(type) {
		case string, *SymStr:
			return x
		case *term.T:
			if x.IsConst() {
				return string(rune(term.SignedVal(x)))
			}
			unsupported("string(symbolic rune)")
		case *SliceV:
			// []byte / []rune -> string, concrete only
			var sb strings.Builder
			b, _, _ := intBits(x.ElemT)
			for i := 0; i < x.Len; i++ {
				e := m.load(&PtrV{Obj: x.Obj, Path: []int{x.Off + i}}).(*term.T)
				if !e.IsConst() {
					unsupported("string(symbolic bytes)")
				}
				if b == 8 {
					sb.WriteByte(byte(e.V))
				} else {
					sb.WriteRune(rune(e.V))
				}
			}
			return sb.String()
		}
	}
	if sl, ok := tu.(*types.Slice); ok {
		if s, ok := v.(string); ok {
			b, _, _ := intBits(sl.Elem())
			var elems []Value
			if b == 8 {
				for i := 0; i < len(s); i++ {
					elems = append(elems, f.BVC(8, uint64(s[i])))
				}
			} else {
				for _, r := range s {
					elems = append(elems, f.BVC(32, uint64(r)))
				}
			}
			o := m.newObject(types.NewArray(sl.Elem(), int64(len(elems))), &ArrayV{E: elems}, "conv")
			return &SliceV{Obj: o, Len: len(elems), Cap: len(elems), ElemT: sl.Elem()}
		}
		if _, ok := v.(*SymStr); ok {
			unsupported("[]byte(symbolic string)")
		}
		if s, ok := v.(*SliceV); ok {
			return s
		}
	}
	if _, ok := tu.(*types.Pointer); ok {
		return m.retype(v, to)
	}
	// same underlying representation
	return v
}

// retype gives the typed-pointer meaning of an unsafe pointer / address:
// it must designate a sub-object of exactly the target element type.
func (m *Machine) retype(v Value, to types.Type) Value {
	et := under(to).(*types.Pointer).Elem()
	switch p := v.(type) {
	case *PtrV:
		if p.IsNil() {
			return p
		}
		return m.resolveAddr(&AddrV{Obj: p.Obj, Path: p.Path}, et)
	case *AddrV:
		if p.Nil {
			if p.Off == 0 {
				return &PtrV{}
			}
			panic(goPanicSig{msg: "unsafe: pointer arithmetic on nil"})
		}
		return m.resolveAddr(p, et)
	}
	unsupported("conversion of %T to pointer", v)
	return nil
}

// UnsafeViolation is raised (as a Go panic of the interpreted program, so that
// vrt.Panics does NOT catch it) when unsafe pointer arithmetic does not land
// exactly on a sub-object of the requested type.
type UnsafeViolation struct{ Msg string }

func (m *Machine) resolveAddr(a *AddrV, et types.Type) Value {
	if a.Sym != nil || hasSymLayout(a.Obj.T) {
		return m.resolveSymAddr(a, et)
	}
	// absolute offset of the original pointer inside its object
	base := m.offsetOf(a.Obj.T, a.Path)
	want := base + a.Off
	if want < 0 || want > m.W.Sizes.Sizeof(a.Obj.T) {
		panic(UnsafeViolation{fmt.Sprintf("unsafe access at offset %d outside object of type %s (size %d)", want, a.Obj.T, m.W.Sizes.Sizeof(a.Obj.T))})
	}
	if path, ok := m.findSub(a.Obj.T, want, et, nil); ok {
		return &PtrV{Obj: a.Obj, Path: path}
	}
	panic(UnsafeViolation{fmt.Sprintf("unsafe access as %s at offset %d of %s does not designate exactly one field of that type", et, want, a.Obj.T)})
}

func (m *Machine) offsetOf(t types.Type, path []int) int64 {
	var off int64
	for _, i := range path {
		switch u := under(t).(type) {
		case *types.Struct:
			fs := make([]*types.Var, u.NumFields())
			for k := range fs {
				fs[k] = u.Field(k)
			}
			off += m.W.Sizes.Offsetsof(fs)[i]
			t = u.Field(i).Type()
		case *types.Array:
			off += int64(i) * m.W.Sizes.Sizeof(u.Elem())
			t = u.Elem()
		default:
			unsupported("offsetOf into %s", t)
		}
	}
	return off
}

// findSub finds the path to a sub-object of type et at byte offset off inside
// a value of type t (by-value nesting only).
func (m *Machine) findSub(t types.Type, off int64, et types.Type, path []int) ([]int, bool) {
	if off == 0 && types.Identical(t, et) {
		return append([]int(nil), path...), true
	}
	switch u := under(t).(type) {
	case *types.Struct:
		fs := make([]*types.Var, u.NumFields())
		for k := range fs {
			fs[k] = u.Field(k)
		}
		offs := m.W.Sizes.Offsetsof(fs)
		for i := 0; i < u.NumFields(); i++ {
			sz := m.W.Sizes.Sizeof(u.Field(i).Type())
			if off >= offs[i] && (off < offs[i]+sz || (sz == 0 && off == offs[i])) {
				if p, ok := m.findSub(u.Field(i).Type(), off-offs[i], et, append(path, i)); ok {
					return p, true
				}
			}
		}
	case *types.Array:
		es := m.W.Sizes.Sizeof(u.Elem())
		if es > 0 {
			i := off / es
			if i < u.Len() {
				return m.findSub(u.Elem(), off-i*es, et, append(path, int(i)))
			}
		}
	}
	return nil, false
}

// getTypeAt is the static type of the sub-object of t at path.
func getTypeAt(t types.Type, path []int) types.Type {
	for _, i := range path {
		switch u := under(t).(type) {
		case *types.Struct:
			t = u.Field(i).Type()
		case *types.Array:
			t = u.Elem()
		default:
			unsupported("type path into %s", t)
		}
	}
	return t
}

// ---- slices, arrays, maps

func (m *Machine) makeSlice(et types.Type, l, c int) *SliceV {
	if l < 0 || c < l {
		m.goPanic("makeslice: len out of range")
	}
	elems := make([]Value, c)
	for i := range elems {
		elems[i] = m.zero(et)
	}
	o := m.newObject(types.NewArray(et, int64(c)), &ArrayV{E: elems}, "makeslice")
	return &SliceV{Obj: o, Len: l, Cap: c, ElemT: et}
}

func (m *Machine) concreteIndex(i Value, n int, what string) int {
	t := i.(*term.T)
	if t.S.W < 64 {
		t = m.F.SExt(64, t)
	}
	if t.IsConst() {
		k := term.SignedVal(t)
		if k < 0 || k >= int64(n) {
			m.goPanic("index out of range [%d] with length %d", k, n)
		}
		return int(k)
	}
	// symbolic index: out-of-range panics, in-range forks per position
	if !m.branch(m.F.ULt(t, m.F.BVC(64, uint64(n))), what) {
		m.goPanic("index out of range (symbolic)")
	}
	for k := 0; k < n-1; k++ {
		if m.branch(m.F.Eq(t, m.F.BVC(64, uint64(k))), what) {
			return k
		}
	}
	return n - 1
}

// symIndex checks the bounds of a symbolic index (forking off the panic) and
// returns it as a 64-bit term, or nil if the index is concrete.
func (m *Machine) symIndex(i Value, n int, what string) *term.T {
	t := i.(*term.T)
	if t.S.W < 64 {
		t = m.F.SExt(64, t)
	}
	if t.IsConst() {
		return nil
	}
	if !m.branch(m.F.ULt(t, m.F.BVC(64, uint64(n))), what) {
		m.goPanic("index out of range (symbolic)")
	}
	return t
}

func (m *Machine) index(x, i Value, xt types.Type) Value {
	switch a := x.(type) {
	case *ArrayV:
		if t := m.symIndex(i, len(a.E), "array index"); t != nil {
			var res Value
			for k := len(a.E) - 1; k >= 0; k-- {
				if res == nil {
					res = a.E[k]
				} else {
					res = m.merge(m.F.Eq(t, m.F.BVC(64, uint64(k))), a.E[k], res)
				}
			}
			return res
		}
		return a.E[m.concreteIndex(i, len(a.E), "array index")]
	case string:
		k := m.concreteIndex(i, len(a), "string index")
		return m.F.BVC(8, uint64(a[k]))
	case *SymStr:
		t := i.(*term.T)
		if !t.IsConst() {
			unsupported("symbolic index into symbolic string")
		}
		k := int(term.SignedVal(t))
		if k < 0 || k >= len(a.Bytes) {
			m.goPanic("index out of range")
		}
		if !m.branch(m.F.ULt(m.F.BVC(64, uint64(k)), a.Len), "string index") {
			m.goPanic("index out of range")
		}
		return a.Bytes[k]
	}
	unsupported("index of %T", x)
	return nil
}

func (m *Machine) indexAddr(x, i Value) Value {
	switch a := x.(type) {
	case *SliceV:
		if t := m.symIndex(i, a.Len, "slice index"); t != nil {
			return &PtrV{Obj: a.Obj, SymIdx: t, SymN: a.Len, Base: a.Off}
		}
		k := m.concreteIndex(i, a.Len, "slice index")
		return &PtrV{Obj: a.Obj, Path: []int{a.Off + k}}
	case *PtrV: // pointer to array
		if a.IsNil() {
			m.goPanic("nil pointer dereference")
		}
		if a.SymIdx != nil || a.Arena != nil {
			unsupported("index through a symbolic pointer")
		}
		n := int(under(getTypeAt(a.Obj.T, a.Path)).(*types.Array).Len())
		if t := m.symIndex(i, n, "array index"); t != nil {
			return &PtrV{Obj: a.Obj, Path: append([]int(nil), a.Path...), SymIdx: t, SymN: n}
		}
		k := m.concreteIndex(i, n, "array index")
		return a.sub(k)
	}
	unsupported("indexaddr of %T", x)
	return nil
}

func (m *Machine) slice(fr *Frame, in *ssa.Slice) Value {
	x := m.get(fr, in.X)
	geti := func(v ssa.Value, def int) int {
		if v == nil {
			return def
		}
		t := m.get(fr, v).(*term.T)
		if !t.IsConst() {
			unsupported("symbolic slice bound")
		}
		return int(term.SignedVal(t))
	}
	switch s := x.(type) {
	case *SliceV:
		lo := geti(in.Low, 0)
		hi := geti(in.High, s.Len)
		mx := geti(in.Max, s.Cap)
		if lo < 0 || hi < lo || mx < hi || mx > s.Cap {
			m.goPanic("slice bounds out of range [%d:%d:%d] with capacity %d", lo, hi, mx, s.Cap)
		}
		if s.Obj == nil {
			return &SliceV{ElemT: s.ElemT}
		}
		return &SliceV{Obj: s.Obj, Off: s.Off + lo, Len: hi - lo, Cap: mx - lo, ElemT: s.ElemT}
	case string:
		lo := geti(in.Low, 0)
		hi := geti(in.High, len(s))
		if lo < 0 || hi < lo || hi > len(s) {
			m.goPanic("string slice bounds out of range")
		}
		return s[lo:hi]
	case *PtrV: // pointer to array
		arr := m.load(s).(*ArrayV)
		n := len(arr.E)
		lo := geti(in.Low, 0)
		hi := geti(in.High, n)
		mx := geti(in.Max, n)
		if lo < 0 || hi < lo || mx < hi || mx > n {
			m.goPanic("slice bounds out of range")
		}
		if len(s.Path) != 0 {
			unsupported("slicing an array nested inside an object")
		}
		et := under(s.Obj.T).(*types.Array).Elem()
		return &SliceV{Obj: s.Obj, Off: lo, Len: hi - lo, Cap: mx - lo, ElemT: et}
	}
	unsupported("slice of %T", x)
	return nil
}

func (m *Machine) mapKey(k Value) string {
	switch x := k.(type) {
	case string:
		return "s:" + x
	case *term.T:
		if x.IsConst() {
			return "c:" + m.F.String(x)
		}
		unsupported("symbolic map key")
	case *IfaceV:
		if x.Dyn == nil {
			return "nil"
		}
		return "i:" + x.Dyn.String() + ":" + m.mapKey(x.V)
	case *RTypeV:
		return "t:" + x.T.String()
	case *PtrV:
		if x.Obj != nil {
			return fmt.Sprintf("p:%d%v", x.Obj.ID, x.Path)
		}
		return "p:nil"
	case *StructV:
		var ps []string
		for _, e := range x.F {
			ps = append(ps, m.mapKey(e))
		}
		return "{" + strings.Join(ps, ",") + "}"
	}
	unsupported("map key of %T", k)
	return ""
}

func (m *Machine) lookup(x, k Value, in *ssa.Lookup) Value {
	if s, ok := x.(string); ok {
		i := m.concreteIndex(k, len(s), "string index")
		return m.F.BVC(8, uint64(s[i]))
	}
	if s, ok := x.(*SymStr); ok {
		return m.index(s, k, nil)
	}
	mv := x.(*MapV)
	vt := under(in.X.Type()).(*types.Map).Elem()
	var v Value
	found := false
	if mv.M != nil {
		v, found = mv.M.V[m.mapKey(k)]
	}
	if !found {
		v = m.zero(vt)
	}
	if in.CommaOk {
		return TupleV{v, m.F.BoolC(found)}
	}
	return v
}

func (m *Machine) mapUpdate(x, k, v Value) {
	mv := x.(*MapV)
	if mv.M == nil {
		m.goPanic("assignment to entry in nil map")
	}
	if m.procMode {
		unsupported("map update inside a goroutine under BMC")
	}
	key := m.mapKey(k)
	if _, ok := mv.M.V[key]; !ok {
		mv.M.Keys = append(mv.M.Keys, key)
		mv.M.K[key] = k
	}
	mv.M.V[key] = v
}

type iterV struct {
	sym   *SymStr
	keys  []string
	m     *MapObj
	str   string
	pos   int
	isStr bool
}

func (m *Machine) rangeIter(x Value) Value {
	switch a := x.(type) {
	case *MapV:
		it := &iterV{}
		if a.M != nil {
			it.m = a.M
			it.keys = append([]string(nil), a.M.Keys...)
		}
		return it
	case string:
		return &iterV{str: a, isStr: true}
	case *SymStr:
		return &iterV{sym: a, isStr: true}
	}
	unsupported("range over %T", x)
	return nil
}

func (m *Machine) next(x Value, in *ssa.Next) Value {
	it := x.(*iterV)
	f := m.F
	if it.isStr && it.sym != nil {
		return m.nextSymRune(it)
	}
	if it.isStr {
		if it.pos >= len(it.str) {
			return TupleV{f.False(), f.BVC(64, 0), f.BVC(32, 0)}
		}
		for i, r := range it.str[it.pos:] {
			_ = i
			p := it.pos
			it.pos += len(string(r))
			return TupleV{f.True(), f.BVC(64, uint64(p)), f.BVC(32, uint64(r))}
		}
	}
	tt := in.Type().(*types.Tuple)
	for it.pos < len(it.keys) {
		k := it.keys[it.pos]
		it.pos++
		if v, ok := it.m.V[k]; ok {
			return TupleV{f.True(), it.m.K[k], v}
		}
	}
	return TupleV{f.False(), m.zero(tt.At(1).Type()), m.zero(tt.At(2).Type())}
}

// nextSymRune: one step of `for i, r := range s` over a symbolic string. The
// byte position stays concrete: the width of the rune at the position (1..4, by
// Go's UTF-8 decoding rules, invalid or truncated encodings yielding U+FFFD of
// width 1) is decided by forking.
func (m *Machine) nextSymRune(it *iterV) Value {
	f := m.F
	s := it.sym
	p := it.pos
	done := TupleV{f.False(), f.BVC(64, 0), f.BVC(32, 0)}
	if p >= len(s.Bytes) || !m.branch(f.SLt(f.BVC(64, uint64(p)), s.Len), "range string: more") {
		return done
	}
	b := func(k int) *term.T { return s.Bytes[p+k] } // 8-bit
	in := func(x *term.T, lo, hi uint64) *term.T {
		return f.And(f.ULe(f.BVC(8, lo), x), f.ULe(x, f.BVC(8, hi)))
	}
	avail := func(n int) *term.T { // n bytes available from p
		if p+n > len(s.Bytes) {
			return f.False()
		}
		return f.SLe(f.BVC(64, uint64(p+n)), s.Len)
	}
	w := func(x *term.T) *term.T { return f.ZExt(32, x) }
	bits := func(x *term.T, mask uint64, sh uint64) *term.T {
		return f.Shl(f.BAnd(w(x), f.BVC(32, mask)), f.BVC(32, sh))
	}
	out := func(size int, r *term.T) Value {
		it.pos = p + size
		return TupleV{f.True(), f.BVC(64, uint64(p)), r}
	}
	if m.branch(f.ULt(b(0), f.BVC(8, 0x80)), "range string: ascii") {
		return out(1, w(b(0)))
	}
	cont := func(k int) *term.T { return in(b(k), 0x80, 0xBF) }
	if p+1 < len(s.Bytes) {
		two := f.And(avail(2), in(b(0), 0xC2, 0xDF), cont(1))
		if m.branch(two, "range string: 2-byte rune") {
			return out(2, f.BOr(bits(b(0), 0x1F, 6), bits(b(1), 0x3F, 0)))
		}
	}
	if p+2 < len(s.Bytes) {
		second := f.Or(
			f.And(f.Eq(b(0), f.BVC(8, 0xE0)), in(b(1), 0xA0, 0xBF)),
			f.And(f.Or(in(b(0), 0xE1, 0xEC), in(b(0), 0xEE, 0xEF)), cont(1)),
			f.And(f.Eq(b(0), f.BVC(8, 0xED)), in(b(1), 0x80, 0x9F)))
		three := f.And(avail(3), second, cont(2))
		if m.branch(three, "range string: 3-byte rune") {
			return out(3, f.BOr(f.BOr(bits(b(0), 0x0F, 12), bits(b(1), 0x3F, 6)), bits(b(2), 0x3F, 0)))
		}
	}
	if p+3 < len(s.Bytes) {
		second := f.Or(
			f.And(f.Eq(b(0), f.BVC(8, 0xF0)), in(b(1), 0x90, 0xBF)),
			f.And(in(b(0), 0xF1, 0xF3), cont(1)),
			f.And(f.Eq(b(0), f.BVC(8, 0xF4)), in(b(1), 0x80, 0x8F)))
		four := f.And(avail(4), second, cont(2), cont(3))
		if m.branch(four, "range string: 4-byte rune") {
			r := f.BOr(f.BOr(bits(b(0), 0x07, 18), bits(b(1), 0x3F, 12)), f.BOr(bits(b(2), 0x3F, 6), bits(b(3), 0x3F, 0)))
			return out(4, r)
		}
	}
	return out(1, f.BVC(32, 0xFFFD))
}

// ---- type assertions

func (m *Machine) implements(dyn types.Type, it *types.Interface) bool {
	return types.Implements(dyn, it)
}

func (m *Machine) typeAssert(x Value, in *ssa.TypeAssert) Value {
	iv, ok := x.(*IfaceV)
	if !ok {
		unsupported("type assertion on %T", x)
	}
	if iv.Tag != nil {
		iv = m.concretizeIface(iv)
	}
	f := m.F
	okv := false
	var res Value
	if it, isI := under(in.AssertedType).(*types.Interface); isI {
		if iv.Dyn != nil {
			if _, isR := iv.V.(*RTypeV); isR {
				okv = true
			} else if _, isM := iv.V.(*ModelV); isM {
				okv = true
			} else {
				okv = m.implements(iv.Dyn, it)
			}
		}
		res = iv
	} else {
		okv = iv.Dyn != nil && types.Identical(iv.Dyn, in.AssertedType)
		if okv {
			res = iv.V
		}
	}
	if in.CommaOk {
		if !okv {
			if isIface(in.AssertedType) {
				res = &IfaceV{}
			} else {
				res = m.zero(in.AssertedType)
			}
		}
		return TupleV{res, f.BoolC(okv)}
	}
	if !okv {
		m.goPanic("interface conversion: %s is not %s", typeStr(iv.Dyn), in.AssertedType)
	}
	return res
}

func typeStr(t types.Type) string {
	if t == nil {
		return "nil"
	}
	return t.String()
}

// concretizeIface forks over the possible dynamic types of a symbolic interface.
func (m *Machine) concretizeIface(iv *IfaceV) *IfaceV {
	if iv.Tag == nil {
		return iv
	}
	f := m.F
	if m.branch(f.Eq(iv.Tag, f.IntC(0)), "iface nil?") {
		return &IfaceV{}
	}
	n := len(m.W.dynTypes)
	for k := 1; k <= n; k++ {
		if k == n || m.branch(f.Eq(iv.Tag, f.IntC(int64(k))), "iface tag") {
			if k == n {
				m.assume(f.Eq(iv.Tag, f.IntC(int64(k))))
			}
			return m.W.ifaceFromTag(m, k, iv.Pay).(*IfaceV)
		}
	}
	panic(pathEnd{"infeasible"})
}

// ---- channels in sequential mode (set-up code)

func (m *Machine) newChan(cap int, et types.Type, name string) *Chan {
	if cap < 0 {
		m.goPanic("makechan: size out of range")
	}
	if m.procMode && m.bmcHooks != nil && m.bmcHooks.makeChan != nil {
		return m.bmcHooks.makeChan(m, cap, et, name)
	}
	c := &Chan{ID: len(m.W.Chans), Cap: cap, ElemT: et, Name: name}
	m.W.Chans = append(m.W.Chans, c)
	return c
}

func (m *Machine) chanSendSeq(c *ChanV, v Value) {
	if c.C == nil {
		unsupported("send on nil channel in sequential code")
	}
	if c.C.Closed {
		m.goPanic("send on closed channel")
	}
	if len(c.C.Buf) >= c.C.Cap {
		unsupported("send would block in sequential code (channel %d full)", c.C.ID)
	}
	c.C.Buf = append(c.C.Buf, v)
}

func (m *Machine) chanRecvSeq(c *ChanV, commaOk bool, t types.Type) Value {
	if c.C == nil {
		unsupported("receive on nil channel in sequential code")
	}
	var v Value
	ok := true
	if len(c.C.Buf) > 0 {
		v = c.C.Buf[0]
		c.C.Buf = c.C.Buf[1:]
	} else if c.C.Closed {
		v = m.zero(c.C.ElemT)
		ok = false
	} else {
		unsupported("receive would block in sequential code (channel %d)", c.C.ID)
	}
	if commaOk {
		return TupleV{v, m.F.BoolC(ok)}
	}
	return v
}

func (m *Machine) doSelectSeq(fr *Frame, in *ssa.Select) {
	unsupported("select in sequential code")
}

func (m *Machine) doGo(fr *Frame, in *ssa.Go) {
	c := in.Common()
	if m.procMode {
		// a goroutine started by a running goroutine: a process that exists from the
		// beginning but is idle until the spawning transition sets its pc to "start"
		if m.bmcHooks == nil || m.bmcHooks.spawn == nil || c.IsInvoke() {
			unsupported("goroutine started by a running goroutine")
		}
		f, ok := m.get(fr, c.Value).(*FuncV)
		if !ok || f == nil || f.Fn == nil {
			unsupported("go of a non-function value")
		}
		var args []Value
		for _, a := range c.Args {
			args = append(args, m.get(fr, a))
		}
		m.bmcHooks.spawn(m, fr, in, f, args)
		return
	}
	p := &Proc{Lib: true}
	if c.IsInvoke() {
		unsupported("go with interface method")
	}
	fv := m.get(fr, c.Value)
	for _, a := range c.Args {
		p.Args = append(p.Args, m.get(fr, a))
	}
	f, ok := fv.(*FuncV)
	if !ok || f == nil || f.Fn == nil {
		unsupported("go of %T", fv)
	}
	p.Fn = f
	p.Name = fmt.Sprintf("%s#%d", f.Fn.Name(), len(m.procs))
	p.Lib = !strings.Contains(fr.fn.String(), "zz_verif") && !isHarnessFn(fr.fn)
	m.procs = append(m.procs, p)
}

func isHarnessFn(fn *ssa.Function) bool {
	for f := fn; f != nil; f = f.Parent() {
		pos := f.Pos()
		if pos.IsValid() && f.Prog != nil {
			if strings.Contains(f.Prog.Fset.Position(pos).Filename, "zz_verif") {
				return true
			}
		}
	}
	return false
}

// Proc is a goroutine registered during set-up (BMC).
type Proc struct {
	Name   string
	Fn     *FuncV
	Args   []Value
	Lib    bool
	Daemon bool
}
