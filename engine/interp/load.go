package interp

import (
	"fmt"
	"go/types"
	"io"
	"os"
	"path/filepath"
	"strings"

	"golang.org/x/tools/go/packages"
	"golang.org/x/tools/go/ssa"
	"golang.org/x/tools/go/ssa/ssautil"
)

type typesType = types.Type
type typesSizes = types.Sizes

// Hosts maps a harness group to the directory (relative to repo or stage) and
// import path of the package that hosts its harness files.
type Host struct {
	Dir    string // absolute directory
	Import string
	Staged bool
}

type Stage struct {
	Dir    string // temp dir
	GoWork string
	Repo   string
	Verif  string
	Hosts  map[string]*Host
}

func copyFile(src, dst string) error {
	in, err := os.Open(src)
	if err != nil {
		return err
	}
	defer in.Close()
	if err := os.MkdirAll(filepath.Dir(dst), 0o755); err != nil {
		return err
	}
	out, err := os.Create(dst)
	if err != nil {
		return err
	}
	defer out.Close()
	_, err = io.Copy(out, in)
	return err
}

func copyTreeNoTests(src, dst string) error {
	return filepath.Walk(src, func(p string, info os.FileInfo, err error) error {
		if err != nil {
			return err
		}
		rel, _ := filepath.Rel(src, p)
		if info.IsDir() {
			return os.MkdirAll(filepath.Join(dst, rel), 0o755)
		}
		if strings.HasSuffix(p, "_test.go") || !strings.HasSuffix(p, ".go") {
			return nil
		}
		return copyFile(p, filepath.Join(dst, rel))
	})
}

// NewStage copies the module-less internal packages under their declared
// import paths and writes a go.work that makes every repo module (and vrt)
// resolve to the working tree.
func NewStage(repo, verif string) (*Stage, error) {
	dir, err := os.MkdirTemp("", "vstage-")
	if err != nil {
		return nil, err
	}
	st := &Stage{Dir: dir, Repo: repo, Verif: verif, Hosts: map[string]*Host{}}
	staged := []struct{ src, name, mod string }{
		{"internal/maplike", "maplike", "github.com/fogfish/golem/maplike"},
		{"internal/seq", "seq", "github.com/fogfish/golem/seq"},
		{"internal/pipe", "internalpipe", "github.com/fogfish/golem/internalpipe"},
	}
	uses := []string{}
	for _, m := range []string{"duct", "hseq", "optics", "pipe", "pure", "trait"} {
		uses = append(uses, filepath.Join(repo, m))
	}
	uses = append(uses, filepath.Join(verif, "vrt"))
	for _, s := range staged {
		d := filepath.Join(dir, s.name)
		if err := copyTreeNoTests(filepath.Join(repo, s.src), d); err != nil {
			return nil, err
		}
		// seqtest depends on the test-only module fogfish/it: drop it
		os.RemoveAll(filepath.Join(d, "seqtest"))
		gomod := fmt.Sprintf("module %s\n\ngo 1.22\n", s.mod)
		if err := os.WriteFile(filepath.Join(d, "go.mod"), []byte(gomod), 0o644); err != nil {
			return nil, err
		}
		uses = append(uses, d)
	}
	var sb strings.Builder
	sb.WriteString("go 1.26.8\n\nuse (\n")
	for _, u := range uses {
		sb.WriteString("\t" + u + "\n")
	}
	sb.WriteString(")\n")
	st.GoWork = filepath.Join(dir, "go.work")
	if err := os.WriteFile(st.GoWork, []byte(sb.String()), 0o644); err != nil {
		return nil, err
	}
	h := func(key, d, imp string, staged bool) { st.Hosts[key] = &Host{Dir: d, Import: imp, Staged: staged} }
	h("hseq", filepath.Join(repo, "hseq"), "github.com/fogfish/golem/hseq", false)
	h("optics", filepath.Join(repo, "optics"), "github.com/fogfish/golem/optics", false)
	h("pipe", filepath.Join(repo, "pipe"), "github.com/fogfish/golem/pipe/v2", false)
	h("fork", filepath.Join(repo, "pipe", "fork"), "github.com/fogfish/golem/pipe/v2/fork", false)
	h("duct", filepath.Join(repo, "duct"), "github.com/fogfish/golem/duct", false)
	h("traitseq", filepath.Join(repo, "trait", "seq"), "github.com/fogfish/golem/trait/seq", false)
	h("traitpair", filepath.Join(repo, "trait", "pair"), "github.com/fogfish/golem/trait/pair", false)
	h("ord", filepath.Join(repo, "pure", "ord"), "github.com/fogfish/golem/pure/ord", false)
	h("skiplist", filepath.Join(dir, "maplike", "skiplist"), "github.com/fogfish/golem/maplike/skiplist", true)
	h("seqlist", filepath.Join(dir, "seq", "list"), "github.com/fogfish/golem/seq/list", true)
	h("internalpipe", filepath.Join(dir, "internalpipe"), "github.com/fogfish/golem/internalpipe", true)
	return st, nil
}

func (s *Stage) Close() {
	if s != nil && s.Dir != "" {
		os.RemoveAll(s.Dir)
	}
}

// Env returns the environment for go commands in the workspace.
func (s *Stage) Env() []string {
	env := []string{}
	for _, e := range os.Environ() {
		k := strings.SplitN(e, "=", 2)[0]
		switch k {
		case "GOFLAGS", "GOWORK", "GOTOOLCHAIN", "GOPROXY", "PATH", "GOSUMDB", "GONOSUMDB", "GONOSUMCHECK", "GOFLAGS_EXTRA":
			continue
		}
		env = append(env, e)
	}
	env = append(env,
		"GOWORK="+s.GoWork,
		"GOFLAGS=",
		"GOTOOLCHAIN=local",
		"GOPROXY=off",
		"PATH=/opt/veriftools/go1.26.8/bin:"+os.Getenv("PATH"),
	)
	return env
}

// Overlay builds the overlay map for the harness files of a host group:
// every /verif/harness/<group>/*.go appears in the host directory.
func (s *Stage) Overlay(group string, includeTests bool) (map[string][]byte, error) {
	h, ok := s.Hosts[group]
	if !ok {
		return nil, fmt.Errorf("unknown harness group %q", group)
	}
	ov := map[string][]byte{}
	files, _ := filepath.Glob(filepath.Join(s.Verif, "harness", group, "*.go"))
	for _, f := range files {
		if strings.HasSuffix(f, "_test.go") && !includeTests {
			continue
		}
		b, err := os.ReadFile(f)
		if err != nil {
			return nil, err
		}
		ov[filepath.Join(h.Dir, filepath.Base(f))] = b
	}
	if len(ov) == 0 {
		return nil, fmt.Errorf("no harness files for group %q", group)
	}
	return ov, nil
}

type Loaded struct {
	Prog  *ssa.Program
	Pkg   *ssa.Package
	Sizes types.Sizes
	Fset  interface{}
}

// Load type-checks the host package with its harness overlay and builds SSA
// (generics instantiated) for it and all dependencies.
func (s *Stage) Load(group string) (*Loaded, error) {
	h := s.Hosts[group]
	ov, err := s.Overlay(group, false)
	if err != nil {
		return nil, err
	}
	cfg := &packages.Config{
		Mode: packages.NeedName | packages.NeedFiles | packages.NeedCompiledGoFiles | packages.NeedImports | packages.NeedDeps |
			packages.NeedTypes | packages.NeedTypesSizes | packages.NeedSyntax | packages.NeedTypesInfo | packages.NeedModule,
		Dir:     h.Dir,
		Env:     s.Env(),
		Overlay: ov,
	}
	pkgs, err := packages.Load(cfg, ".")
	if err != nil {
		return nil, fmt.Errorf("load %s: %v", group, err)
	}
	var errs []string
	packages.Visit(pkgs, nil, func(p *packages.Package) {
		for _, e := range p.Errors {
			errs = append(errs, e.Error())
		}
	})
	if len(errs) > 0 {
		if len(errs) > 8 {
			errs = errs[:8]
		}
		return nil, fmt.Errorf("load %s: %s", group, strings.Join(errs, "; "))
	}
	prog, spkgs := ssautil.AllPackages(pkgs, ssa.InstantiateGenerics)
	prog.Build()
	if len(spkgs) == 0 || spkgs[0] == nil {
		return nil, fmt.Errorf("no SSA package for %s", group)
	}
	sizes := types.SizesFor("gc", "amd64")
	return &Loaded{Prog: prog, Pkg: spkgs[0], Sizes: sizes}, nil
}
