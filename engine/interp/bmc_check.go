package interp

import (
	"fmt"
	"go/types"
	"os"
	"sort"
	"strings"

	"verif.local/engine/smt"
	"verif.local/engine/term"
)

type labeledFn struct {
	label string
	fn    *FuncV
}

// evalPred turns a pure harness closure (func() bool) into a state formula by
// running all its paths over the symbolic heap.
func (b *bmcSys) evalPred(fv *FuncV) *term.T {
	f := b.f
	var disj []*term.T
	snap := f.SnapshotFresh()
	work := [][]int{nil}
	for len(work) > 0 {
		prefix := work[len(work)-1]
		work = work[:len(work)-1]
		m := b.newProcMachine(b.procs[0], prefix)
		m.procMode = false
		m.curProc = nil
		m.symHeap = b.predHeap()
		f.RestoreFresh(snap)
		b.s.Push()
		func() {
			defer func() {
				if x := recover(); x != nil {
					switch e := x.(type) {
					case pathEnd:
					case goPanicSig:
						unsupported("state predicate panics: %s", e.msg)
					default:
						panic(x)
					}
				}
			}()
			r := m.callAndRun(fv, nil)
			t, ok := r.(*term.T)
			if !ok {
				unsupported("state predicate does not return a bool")
			}
			disj = append(disj, f.And(f.And(m.pc...), t))
		}()
		b.s.Pop()
		work = append(work, m.pending...)
	}
	return f.Or(disj...)
}

// pruneConstCells replaces, in the symbolic heap, the cells that no extracted
// path writes by their initial values. Reports whether anything changed.
func (b *bmcSys) pruneConstCells() bool {
	written := map[*term.T]bool{}
	for _, o := range b.outcomes {
		for v := range o.chanUpd {
			written[v] = true
		}
		for _, p := range o.paths {
			for v := range p.upd {
				written[v] = true
			}
		}
	}
	sub := map[*term.T]*term.T{}
	for _, cv := range b.cells {
		if !written[cv.v] && !b.constCells[cv.v] {
			// arena slots are written through ite-chains only when allocated: keep them
			if strings.HasPrefix(cv.obj.Name, "ar") && strings.Contains(cv.obj.Name, ".slot") {
				continue
			}
			sub[cv.v] = cv.init
		}
	}
	if len(sub) == 0 {
		return false
	}
	if b.constCells == nil {
		b.constCells = map[*term.T]bool{}
	}
	for v := range sub {
		b.constCells[v] = true
	}
	b.symHeap = b.substHeap(b.symHeap, sub)
	return true
}

func (b *bmcSys) substHeap(h map[*Object]Value, sub map[*term.T]*term.T) map[*Object]Value {
	memo := map[int]*term.T{}
	var walk func(v Value) Value
	walk = func(v Value) Value {
		switch x := v.(type) {
		case *term.T:
			return b.f.Subst(x, sub, memo)
		case *StructV:
			o := &StructV{F: make([]Value, len(x.F))}
			for i := range x.F {
				o.F[i] = walk(x.F[i])
			}
			return o
		case *ArrayV:
			o := &ArrayV{E: make([]Value, len(x.E))}
			for i := range x.E {
				o.E[i] = walk(x.E[i])
			}
			return o
		case *IfaceV:
			if x.Tag != nil {
				t, p := b.f.Subst(x.Tag, sub, memo), b.f.Subst(x.Pay, sub, memo)
				if t.IsConst() {
					if t.I == 0 {
						return &IfaceV{}
					}
					return b.w.ifaceFromTag(b.setup, int(t.I), p)
				}
				return &IfaceV{Tag: t, Pay: p}
			}
		}
		return v
	}
	out := map[*Object]Value{}
	for o, v := range h {
		out[o] = walk(v)
	}
	return out
}

// predHeap is the symbolic heap with never-written cells replaced by their
// (constant) initial values, so that state predicates do not fork on them.
func (b *bmcSys) predHeap() map[*Object]Value {
	if b.prunedHeap != nil {
		return b.prunedHeap
	}
	written := map[*term.T]bool{}
	for _, t := range b.trans {
		for v := range t.upd {
			written[v] = true
		}
	}
	sub := map[*term.T]*term.T{}
	for _, cv := range b.cells {
		if !written[cv.v] {
			sub[cv.v] = cv.init
		}
	}
	memo := map[int]*term.T{}
	var walk func(v Value) Value
	walk = func(v Value) Value {
		switch x := v.(type) {
		case *term.T:
			return b.f.Subst(x, sub, memo)
		case *StructV:
			o := &StructV{F: make([]Value, len(x.F))}
			for i := range x.F {
				o.F[i] = walk(x.F[i])
			}
			return o
		case *ArrayV:
			o := &ArrayV{E: make([]Value, len(x.E))}
			for i := range x.E {
				o.E[i] = walk(x.E[i])
			}
			return o
		case *IfaceV:
			if x.Tag != nil {
				t, p := b.f.Subst(x.Tag, sub, memo), b.f.Subst(x.Pay, sub, memo)
				if t.IsConst() {
					if t.I == 0 {
						return &IfaceV{}
					}
					return b.w.ifaceFromTag(b.setup, int(t.I), p)
				}
				return &IfaceV{Tag: t, Pay: p}
			}
		}
		return v
	}
	b.prunedHeap = map[*Object]Value{}
	for o, v := range b.symHeap {
		b.prunedHeap[o] = walk(v)
	}
	return b.prunedHeap
}

// findRacy extends b.racy; reports whether anything new was found.
func (b *bmcSys) findRacy() bool {
	type acc struct{ r, w map[int]bool }
	cells := map[string]*acc{}
	get := func(k string) *acc {
		a := cells[k]
		if a == nil {
			a = &acc{r: map[int]bool{}, w: map[int]bool{}}
			cells[k] = a
		}
		return a
	}
	for _, o := range b.outcomes {
		if !o.loc.proc.p.Lib {
			continue
		}
		for _, p := range o.paths {
			for k := range p.reads {
				get(k).r[o.loc.proc.idx] = true
			}
			for k := range p.writes {
				get(k).w[o.loc.proc.idx] = true
			}
		}
	}
	ghost := map[string]bool{}
	for _, o := range b.w.Objs {
		if o.Ghost {
			ghost[fmt.Sprintf("o%d", o.ID)] = true
		}
	}
	for _, o := range b.allocs {
		if o.Ghost {
			ghost[fmt.Sprintf("o%d", o.ID)] = true
		}
	}
	found := false
	for k, a := range cells {
		if b.racy[k] || len(a.w) == 0 {
			continue
		}
		if base := k; true {
			if i := strings.Index(base, "."); i >= 0 {
				base = base[:i]
			}
			if ghost[base] {
				continue // ghost counters of the harness are updated atomically with the step that bumps them
			}
		}
		procs := map[int]bool{}
		for p := range a.r {
			procs[p] = true
		}
		for p := range a.w {
			procs[p] = true
		}
		if len(procs) > 1 {
			if b.racy == nil {
				b.racy = map[string]bool{}
			}
			b.racy[k] = true
			found = true
		}
	}
	return found
}

func (b *bmcSys) racyList() []string {
	var ks []string
	for k := range b.racy {
		ks = append(ks, k)
	}
	sort.Strings(ks)
	return ks
}

func (b *bmcSys) check() {
	f := b.f
	m := b.setup
	// the path condition of the set-up run (Assume, forks on symbolic branches) is
	// part of every query of this configuration: a set-up path replayed from a
	// decision prefix may end without a feasibility check that would flush it
	m.flushPC()
	b.now = b.newState("now", term.BV(clockW), f.BVC(clockW, 0))
	b.panicVar = b.newState("panic", term.Bool, f.False())
	b.clock = b.job.Params["clock"]
	if len(m.procs) == 0 {
		unsupported("harness registered no goroutines")
	}
	for _, c := range b.w.Chans {
		b.chanState(c)
	}
	for _, ar := range b.w.Arenas {
		ar.Next = b.newState("arena."+ar.Name+".next", term.Int, f.IntC(0))
		if b.job.Params["pool"] == 1 {
			if _, isStruct := ar.T.Underlying().(*types.Struct); isStruct {
				for i := range ar.Slots {
					ar.Pooled = append(ar.Pooled, b.newState(fmt.Sprintf("arena.%s.pooled.%d", ar.Name, i), term.Bool, f.False()))
				}
			}
		}
	}
	for _, o := range b.w.Objs {
		b.symbolizeObject(m, o)
	}
	for round := 0; ; round++ {
		b.procs, b.locs, b.outcomes, b.spawned = nil, nil, nil, nil
		b.extractRound++
		for i, p := range m.procs {
			bp := &bproc{idx: i, p: p}
			bp.start = &bloc{id: len(b.locs), proc: bp, kind: opStart, key: "start", desc: "start"}
			b.locs = append(b.locs, bp.start)
			bp.exit = &bloc{id: len(b.locs), proc: bp, kind: opExit, key: "exit", desc: "exit", done: true}
			b.locs = append(b.locs, bp.exit)
			bp.locs = []*bloc{bp.start, bp.exit}
			bp.pc = b.newState(fmt.Sprintf("pc.p%d", i), term.Int, f.IntC(int64(bp.start.id)))
			b.procs = append(b.procs, bp)
		}
		// extraction to a fixed point
		for {
			progress := false
			for i := 0; i < len(b.locs); i++ {
				if !b.locs[i].done {
					b.extract(b.locs[i])
					progress = true
				}
			}
			if !progress {
				break
			}
			if len(b.locs) > 3000 {
				unsupported("more than 3000 locations")
			}
		}
		// cells written by one library goroutine and accessed by another one: their
		// loads and stores must be steps of their own (else a read-modify-write or a
		// receive-then-send through such a cell would be atomic in the model and a
		// lost update invisible). Extraction is repeated with those accesses visible.
		// cells that no path writes (captured parameters such as n, the capacity,
		// the input array) are constants: extract again with their values known, so
		// that goroutine code reading them does not fork on them
		if b.pruneConstCells() {
			round--
			continue
		}
		if !b.findRacy() || round >= 3 {
			break
		}
		b.logf("shared cells accessed by several library goroutines: %v; extracting again with their loads/stores as separate steps", b.racyList())
	}
	b.logf("extraction: %d locations, solver %.1fs (%d queries)", len(b.locs), b.s.Stats.Seconds, b.s.Stats.Queries)
	if b.nowUsed && b.clock == 0 {
		// the code under test sleeps or arms timers in a configuration that was not
		// given a clock: without one the timers could never fire and behaviours would
		// be silently missing - use the lax clock
		b.clock = 1
		b.logf("timers/sleeps in use without a clock parameter: running under the lax virtual clock")
	}
	b.buildTransitions()
	b.res.States += len(b.locs)
	b.res.Transitions += len(b.trans)
	b.logf("config %v: %d processes, %d locations, %d transitions, %d state vars", m.choiceLog, len(b.procs), len(b.locs), len(b.trans), len(b.stateVars))

	if b.job.Params["dump"] == 1 {
		for _, t := range b.trans {
			fmt.Fprintf(os.Stderr, "T%03d %s | guard size %d upd %d\n", t.id, t.label, t.guard.Size(), len(t.upd))
		}
	}
	// state predicates
	for _, lf := range m.finals {
		b.finals[lf.label] = b.evalPred(lf.fn)
	}
	for _, lf := range m.invars {
		b.invars[lf.label] = b.evalPred(lf.fn)
	}
	b.unrollAndSolve()
}

// ---------------------------------------------------------------------------
// unrolling
// ---------------------------------------------------------------------------

type unroller struct {
	b          *bmcSys
	cur        map[*term.T]*term.T // state variable -> term at the current step
	consts     map[*term.T]*term.T // never-written cells -> initial value
	sch        []*term.T
	exactWake  []*term.T
	promptLib  []*term.T
	porOn      *term.T
	k          int
	stutter    int
	asserted   []*term.T
	stepInputs [][]*term.T
	finBad     map[string][]*term.T // label -> per-step "quiescent and final violated"
	invBad     map[string][]*term.T
	indep      [][2]int
	pendingPOR bool
	prevLive   map[int]bool
}

func (u *unroller) at(t *term.T, extra map[*term.T]*term.T) *term.T {
	mp := map[*term.T]*term.T{}
	for k, v := range u.cur {
		mp[k] = v
	}
	for k, v := range u.consts {
		mp[k] = v
	}
	for k, v := range extra {
		mp[k] = v
	}
	return u.b.f.Subst(t, mp, map[int]*term.T{})
}

func (b *bmcSys) independent(t, s *btrans) bool {
	// a transition that starts a goroutine (writes the pc of a spawned process)
	// depends on every transition of that process and on every other spawn of it
	if len(b.spawned) > 0 {
		owner := map[*term.T]*bproc{}
		for _, p := range b.procs {
			if p.idle != nil {
				owner[p.pc] = p
			}
		}
		touches := func(x, y *btrans) bool {
			for v := range x.upd {
				p := owner[v]
				if p == nil {
					continue
				}
				for _, q := range y.procs {
					if q == p {
						return true
					}
				}
				if _, ok := y.upd[v]; ok {
					return true
				}
			}
			return false
		}
		if touches(t, s) || touches(s, t) {
			return false
		}
	}
	for _, p := range t.procs {
		for _, q := range s.procs {
			if p == q {
				return false
			}
		}
	}
	for c := range t.chans {
		if s.chans[c] {
			return false
		}
	}
	for w := range t.wgs {
		if s.wgs[w] {
			return false
		}
	}
	if t.clock && s.clock {
		return false
	}
	for k := range t.writes {
		if s.writes[k] || s.reads[k] {
			return false
		}
	}
	for k := range s.writes {
		if t.reads[k] {
			return false
		}
	}
	// assertion flags are sticky ORs (commutative); covers likewise
	return true
}

func (b *bmcSys) unrollAndSolve() {
	f := b.f
	s := b.s
	u := &unroller{b: b, cur: map[*term.T]*term.T{}, consts: map[*term.T]*term.T{}, finBad: map[string][]*term.T{}, invBad: map[string][]*term.T{}}
	u.porOn = f.True() // (the partial-order constraints are hard assertions; see the no-POR retry in cmd/vcheck)
	// fail / cover flags
	labels := map[string]bool{}
	covers := map[string]bool{}
	for _, t := range b.trans {
		for _, a := range t.asserts {
			labels[a.label] = true
			b.res.Asserts[a.label]++
		}
		for _, c := range t.covers {
			covers[c] = true
		}
	}
	for l := range labels {
		b.failVars[l] = b.newState("fail."+l, term.Bool, f.False())
	}
	for c := range covers {
		b.coverVars[c] = b.newState("cov."+c, term.Bool, f.False())
	}
	// constants: cells never written
	written := map[*term.T]bool{}
	for _, t := range b.trans {
		for v := range t.upd {
			written[v] = true
		}
	}
	for _, v := range b.stateVars {
		if !written[v] && b.cells[v.Name] != nil {
			u.consts[v] = b.init[v]
		} else {
			u.cur[v] = b.init[v]
		}
	}
	// does anything read the clock?
	clockRead := func(t *term.T) bool {
		vs := map[*term.T]bool{}
		term.FreeVars(t, vs, map[int]bool{})
		return vs[b.now]
	}
	for _, t := range b.trans {
		if clockRead(t.guard) {
			t.clock = true
		}
		for _, v := range t.upd {
			if clockRead(v) {
				t.clock = true
			}
		}
	}
	nT := len(b.trans)
	tick := -1
	if b.clock == 2 {
		tick = nT
		nT++
	}
	u.stutter = nT
	// independence pairs for the partial-order constraint
	if b.job.Params["nopor"] == 0 {
		for i, t := range b.trans {
			for j := 0; j < i; j++ {
				if b.independent(t, b.trans[j]) {
					u.indep = append(u.indep, [2]int{i, j}) // step k = i, step k+1 = j < i forbidden
				}
			}
		}
	}
	quiescent := func() *term.T {
		var en []*term.T
		for _, o := range b.outcomes {
			en = append(en, b.enabled(o))
		}
		q := f.Not(f.Or(en...))
		// pending timers keep the system alive (the clock can always advance)
		if b.clock > 0 {
			var pend []*term.T
			for _, o := range b.outcomes {
				if o.name == "timer" || o.name == "wake" {
					pend = append(pend, f.Eq(o.loc.proc.pc, f.IntC(int64(o.loc.id))))
				}
			}
			q = f.And(q, f.Not(f.Or(pend...)))
		}
		return q
	}()
	b.quiesc = quiescent

	recordStatePreds := func() {
		q := u.at(quiescent, nil)
		for l, fin := range b.finals {
			u.finBad[l] = append(u.finBad[l], f.And(q, f.Not(u.at(fin, nil))))
		}
		for l, inv := range b.invars {
			u.invBad[l] = append(u.invBad[l], f.Not(u.at(inv, nil)))
		}
	}
	recordStatePreds()

	step := func() {
		k := u.k
		sch := f.Var(fmt.Sprintf("sch@%d", k), term.Int)
		u.sch = append(u.sch, sch)
		assert := func(t *term.T) {
			if !t.IsTrue() {
				s.Assert(t)
				u.asserted = append(u.asserted, t)
			}
		}
		assert(f.ILe(f.IntC(0), sch))
		assert(f.ILe(sch, f.IntC(int64(u.stutter))))
		if k > 0 {
			assert(f.Implies(f.Eq(u.sch[k-1], f.IntC(int64(u.stutter))), f.Eq(sch, f.IntC(int64(u.stutter)))))
			u.pendingPOR = true
			if tick >= 0 { // two ticks in a row are merged
				assert(f.Not(f.And(f.Eq(u.sch[k-1], f.IntC(int64(tick))), f.Eq(sch, f.IntC(int64(tick))))))
			}
		}
		// per-step substitution (shared memo)
		mp := map[*term.T]*term.T{}
		for kk, v := range u.cur {
			mp[kk] = v
		}
		for kk, v := range u.consts {
			mp[kk] = v
		}
		var ins []*term.T
		for _, t := range b.trans {
			for _, in := range t.inputs {
				if _, ok := mp[in]; !ok {
					nv := f.Var(fmt.Sprintf("%s@%d", in.Name, k), in.S)
					mp[in] = nv
					ins = append(ins, nv)
				}
			}
		}
		u.stepInputs = append(u.stepInputs, ins)
		var laxDelta *term.T
		if b.clock == 1 {
			// lax clock: an arbitrary amount of time may pass before the transition of
			// this step fires (only transitions that read the clock can tell, so the
			// delay is forced to zero for the others - this keeps them independent)
			laxDelta = f.Var(fmt.Sprintf("tick.delta@%d", k), term.BV(clockW))
			assert(f.ULe(laxDelta, f.BVC(clockW, 2*maxDur)))
			mp[b.now] = f.Add(u.cur[b.now], laxDelta)
			u.stepInputs[k] = append(u.stepInputs[k], laxDelta)
		}
		memo := map[int]*term.T{}
		sub := func(t *term.T) *term.T { return f.Subst(t, mp, memo) }
		next := map[*term.T]*term.T{}
		for v, c := range u.cur {
			next[v] = c
		}
		type wr struct {
			t   int
			val *term.T
		}
		var libEnabled, envChosen []*term.T
		writes := map[*term.T][]wr{}
		dead := map[int]bool{}
		for _, t := range b.trans {
			is := f.Eq(sch, f.IntC(int64(t.id)))
			g := sub(t.guard)
			var pcs []*term.T
			for i, p := range t.procs {
				pcs = append(pcs, f.Eq(u.cur[p.pc], f.IntC(int64(t.src[i].id))))
			}
			g = f.And(append(pcs, g)...)
			if g.IsFalse() {
				assert(f.Not(is))
				dead[t.id] = true
				continue
			}
			assert(f.Implies(is, g))
			if t.env {
				envChosen = append(envChosen, is)
			} else if !t.clock {
				libEnabled = append(libEnabled, g)
			}
			if laxDelta != nil && t.clock && len(t.procs) == 1 && t.src[0].kind == opSleep && t.procs[0].sleep != nil {
				// (preference used when a counterexample is minimised: a sleeper wakes
				// exactly at its deadline, as it does under the replay's virtual clock)
				u.exactWake = append(u.exactWake, f.Implies(is, sub(f.Eq(t.procs[0].sleep, b.now))))
			} else if laxDelta != nil && t.clock && !t.env {
				// (likewise: a library step that reads the clock is not delayed)
				u.exactWake = append(u.exactWake, f.Implies(is, f.Eq(laxDelta, f.BVC(clockW, 0))))
			}
			if laxDelta != nil && !t.clock {
				assert(f.Implies(is, f.Eq(laxDelta, f.BVC(clockW, 0))))
			}
			for v, nv := range t.upd {
				writes[v] = append(writes[v], wr{t.id, sub(nv)})
			}
			for i, p := range t.procs {
				writes[p.pc] = append(writes[p.pc], wr{t.id, f.IntC(int64(t.dst[i].id))})
			}
			for _, a := range t.asserts {
				fv := b.failVars[a.label]
				writes[fv] = append(writes[fv], wr{t.id, f.Or(u.cur[fv], f.Not(sub(a.cond)))})
			}
			for _, c := range t.covers {
				writes[b.coverVars[c]] = append(writes[b.coverVars[c]], wr{t.id, f.True()})
			}
			if t.panicMsg != "" {
				writes[b.panicVar] = append(writes[b.panicVar], wr{t.id, f.True()})
			}
		}
		// (preference used when a counterexample is minimised: the environment moves
		// only when no step involving a library goroutine is enabled - the library is
		// prompt, as it is under the replay's scheduler where environment goroutines
		// sit in timed waits)
		if len(envChosen) > 0 && len(libEnabled) > 0 {
			u.promptLib = append(u.promptLib, f.Implies(f.Or(envChosen...), f.Not(f.Or(libEnabled...))))
		}
		// partial-order constraint between step k-1 and k, only over transitions that
		// can be enabled at those steps at all (guards not folded to false)
		liveNow := map[int]bool{}
		for _, t := range b.trans {
			if !dead[t.id] {
				liveNow[t.id] = true
			}
		}
		if u.pendingPOR {
			u.pendingPOR = false
			for _, pr := range u.indep {
				if u.prevLive[pr[0]] && liveNow[pr[1]] {
					assert(f.Not(f.And(f.Eq(u.sch[k-1], f.IntC(int64(pr[0]))), f.Eq(sch, f.IntC(int64(pr[1]))))))
				}
			}
		}
		u.prevLive = liveNow
		if tick >= 0 {
			d := f.Var(fmt.Sprintf("tick.delta@%d", k), term.BV(clockW))
			is := f.Eq(sch, f.IntC(int64(tick)))
			assert(f.Implies(is, f.ULt(f.BVC(clockW, 0), d)))
			assert(f.ULe(d, f.BVC(clockW, 2*maxDur))) // 40-bit clock, ticks <= 2^31, K <= a few hundred steps: no wrap-around
			if b.clock == 2 {
				// urgent clock: only when nothing else can move, and exactly to the earliest deadline
				assert(f.Implies(is, sub(b.urgentGuard(d))))
			}
			writes[b.now] = append(writes[b.now], wr{tick, f.Add(u.cur[b.now], d)})
			u.stepInputs[k] = append(u.stepInputs[k], d)
		}
		if laxDelta != nil {
			// the clock keeps the advanced value (stutter: no advance)
			adv := f.Ite(f.Eq(sch, f.IntC(int64(u.stutter))), u.cur[b.now], f.Add(u.cur[b.now], laxDelta))
			if len(writes[b.now]) > 0 {
				unsupported("a transition writes the clock")
			}
			next[b.now] = adv
		}
		for v, ws := range writes {
			val := u.cur[v]
			if val == nil {
				val = b.init[v]
			}
			for i := len(ws) - 1; i >= 0; i-- {
				val = f.Ite(f.Eq(sch, f.IntC(int64(ws[i].t))), ws[i].val, val)
			}
			next[v] = val
		}
		u.cur = next
		u.k++
		recordStatePreds()
	}

	K := b.job.K
	if K == 0 {
		K = 20
	}
	maxK := b.job.MaxK
	if maxK == 0 {
		maxK = 4 * K
	}
	generator := b.job.Params["generator"] == 1
	if !generator && K > 8 {
		K = 8 // grown below until the completeness threshold is reached
	}
	for u.k < K {
		step()
	}
	// completeness threshold: is a run with K non-stutter steps possible?
	complete := false
	for {
		r, err := s.CheckWith(false, f.And(u.porOn, f.Not(f.Eq(u.sch[u.k-1], f.IntC(int64(u.stutter))))))
		if err != nil || r == smt.Unknown {
			b.res.Unknown = append(b.res.Unknown, fmt.Sprintf("unwinding query at K=%d: %v %v", u.k, r, err))
			break
		}
		if r == smt.Unsat {
			complete = true
			break
		}
		if generator || u.k >= maxK {
			break
		}
		n := u.k + (u.k+3)/4
		if n > maxK {
			n = maxK
		}
		for u.k < n {
			step()
		}
	}
	b.res.K = u.k
	if !complete && !generator {
		b.res.Unsupported = append(b.res.Unsupported, fmt.Sprintf("unwinding bound: runs longer than K=%d steps exist (config %v); raise K", u.k, b.setup.choiceLog))
	}
	if complete {
		b.res.Complete = true
	}
	b.logf("  unrolled K=%d complete=%v terms=%d indep-pairs=%d solver so far %.1fs (%d queries)", u.k, complete, f.NumTerms(), len(u.indep), s.Stats.Seconds, s.Stats.Queries)

	// properties
	// runs that exceed a limit of the model (instances of a spawned goroutine, ...)
	// say nothing about the property: they make the job inconclusive and are
	// excluded from the property queries
	limitHit := f.False()
	for l, fv := range b.failVars {
		if strings.HasPrefix(l, modelLimit) {
			limitHit = f.Or(limitHit, u.cur[fv])
		}
	}
	query := func(label string, bad *term.T) {
		if bad.IsFalse() {
			return
		}
		if strings.HasPrefix(label, modelLimit) {
			r, err := s.CheckWith(false, f.And(u.porOn, bad))
			if err != nil || r != smt.Unsat {
				b.res.Unsupported = append(b.res.Unsupported, fmt.Sprintf("%s (%v)", label, r))
			}
			return
		}
		bad = f.And(bad, f.Not(limitHit))
		r, err := s.CheckWith(false, f.And(u.porOn, bad))
		if err != nil || r == smt.Unknown {
			b.res.Unknown = append(b.res.Unknown, fmt.Sprintf("property %s: %v %v", label, r, err))
			return
		}
		if r == smt.Sat {
			// a shortest violating run (stutter is absorbing: "stutters from step L on"
			// is monotone in L): short runs replay far more reliably against the real
			// scheduler than whatever model the solver happens to return
			stops := func(L int) *term.T { return f.Eq(u.sch[L], f.IntC(int64(u.stutter))) }
			lo, hi := 0, u.k // invariant: no violating run stutters from lo-1 on; one exists within hi steps
			best := bad
			for lo < hi {
				mid := (lo + hi) / 2
				if mid >= u.k {
					break
				}
				rr, e2 := s.CheckWith(false, f.And(u.porOn, bad, stops(mid)))
				if e2 != nil || rr == smt.Unknown {
					break
				}
				if rr == smt.Sat {
					hi = mid
					best = f.And(bad, stops(mid))
				} else {
					lo = mid + 1
				}
			}
			bad = best
			// (the preferences are about the order of independent steps, which the
			// partial-order constraint fixes: they are tried with that constraint off -
			// every linearisation of a violating run is a violating run of the same length)
			havePOR := true
			if len(u.promptLib) > 0 {
				prompt := f.And(append([]*term.T{bad}, u.promptLib...)...)
				rr, e2 := s.CheckWith(false, prompt)
				b.logf("  minimise %s: prompt-library preference %v %v", label, rr, e2)
				if e2 == nil && rr == smt.Sat {
					bad = prompt
					havePOR = false
				}
			}
			if len(u.exactWake) > 0 {
				exact := f.And(append([]*term.T{bad}, u.exactWake...)...)
				if rr, e2 := s.CheckWith(false, exact); e2 == nil && rr == smt.Sat {
					bad = exact
				}
			}
			if b.clock != 0 && b.now != nil && u.cur[b.now] != nil {
				// ... and, under a virtual clock, one that takes little virtual time
				for _, lim := range []uint64{1000, 1000000} {
					small := f.And(bad, f.ULe(u.cur[b.now], f.BVC(clockW, lim)))
					if rr, e2 := s.CheckWith(false, small); e2 == nil && rr == smt.Sat {
						bad = small
						break
					}
				}
			}
			if havePOR {
				bad = f.And(u.porOn, bad)
			}
			r, err = s.CheckWith(true, bad)
			if err != nil || r != smt.Sat {
				b.res.Unknown = append(b.res.Unknown, fmt.Sprintf("property %s (minimised query): %v %v", label, r, err))
				return
			}
			v := b.decode(u, label, bad)
			b.res.Violations = append(b.res.Violations, v)
			s.Pop()
		}
	}
	// one query for "anything at all goes wrong"; only if it is satisfiable are the
	// individual properties queried (to name the label and get a trace per label)
	{
		all := []*term.T{u.cur[b.panicVar]}
		for _, fv := range b.failVars {
			all = append(all, u.cur[fv])
		}
		for _, bads := range u.invBad {
			all = append(all, bads...)
		}
		for _, bads := range u.finBad {
			all = append(all, bads...)
		}
		r, err := s.CheckWith(false, f.And(u.porOn, f.Or(all...)))
		if err == nil && r == smt.Unsat {
			goto witnesses
		}
		if err != nil || r == smt.Unknown {
			b.res.Unknown = append(b.res.Unknown, fmt.Sprintf("combined property query: %v %v", r, err))
		}
	}
	query("panic", u.cur[b.panicVar])
	{
		var ls []string
		for l := range b.failVars {
			ls = append(ls, l)
		}
		sort.Strings(ls)
		for _, l := range ls {
			query(l, u.cur[b.failVars[l]])
		}
		for l, bads := range u.invBad {
			query(l, f.Or(bads...))
		}
		for l, bads := range u.finBad {
			query(l, f.Or(bads...))
		}
	}
witnesses:
	// witnesses (vacuity): covers must be reachable, and so must a full run
	var cs []string
	for c := range b.coverVars {
		cs = append(cs, c)
	}
	sort.Strings(cs)
	for _, c := range cs {
		r, err := s.CheckWith(false, f.And(u.porOn, u.cur[b.coverVars[c]]))
		b.res.Witnesses[c] = r.String()
		if err != nil || r != smt.Sat {
			b.res.Unsupported = append(b.res.Unsupported, fmt.Sprintf("vacuity: cover %q not reachable within K=%d (%v) in config %v", c, u.k, r, b.setup.choiceLog))
		} else {
			b.res.Covers[c]++
		}
	}
	var qs []*term.T
	for k := 0; k <= u.k; k++ {
		_ = k
	}
	if len(b.finals) > 0 {
		// some quiescent state must be reachable, else the Final conditions are vacuous
		for k := range u.finBad {
			_ = k
		}
		mpq := []*term.T{}
		_ = mpq
	}
	_ = qs
	if len(b.res.Samples) < 4 {
		var ts []string
		for i, t := range b.trans {
			if i < 6 {
				ts = append(ts, t.label)
			}
		}
		b.res.Samples = append(b.res.Samples, fmt.Sprintf("config %v: procs=%d locations=%d transitions=%d K=%d complete=%v e.g. %s", b.setup.choiceLog, len(b.procs), len(b.locs), len(b.trans), u.k, complete, strings.Join(ts, " || ")))
	}
}

// urgentGuard: the clock may only advance when no transition is enabled, and
// then exactly to the earliest pending deadline.
func (b *bmcSys) urgentGuard(d *term.T) *term.T {
	f := b.f
	var en []*term.T
	var dls []*term.T
	for _, o := range b.outcomes {
		en = append(en, b.enabled(o))
		if o.name == "timer" {
			at := f.Eq(o.loc.proc.pc, f.IntC(int64(o.loc.id)))
			dl := b.chanState(o.chans[0]).deadline
			dls = append(dls, f.Implies(at, f.ULe(f.Add(b.now, d), dl)))
		}
		if o.name == "wake" {
			at := f.Eq(o.loc.proc.pc, f.IntC(int64(o.loc.id)))
			dls = append(dls, f.Implies(at, f.ULe(f.Add(b.now, d), o.loc.proc.sleepVar(b))))
		}
	}
	// now+d must reach at least one deadline exactly: since now+d <= every pending
	// deadline and d>0, require equality with some pending one
	var hit []*term.T
	for _, o := range b.outcomes {
		at := f.Eq(o.loc.proc.pc, f.IntC(int64(o.loc.id)))
		if o.name == "timer" {
			hit = append(hit, f.And(at, f.Eq(f.Add(b.now, d), b.chanState(o.chans[0]).deadline)))
		}
		if o.name == "wake" {
			hit = append(hit, f.And(at, f.Eq(f.Add(b.now, d), o.loc.proc.sleepVar(b))))
		}
	}
	return f.And(f.Not(f.Or(en...)), f.And(dls...), f.Or(hit...))
}

// decode reads the schedule and the inputs out of the model.
func (b *bmcSys) decode(u *unroller, label string, bad *term.T) *Violation {
	v := &Violation{Label: label, Detail: "BMC counterexample"}
	choiceVals := map[string]string{}
	choiceCnt := map[string]int{}
	vals, err := b.s.Values(u.sch)
	if err != nil {
		b.res.Unknown = append(b.res.Unknown, "decode: "+err.Error())
		return v
	}
	// virtual time at which each step fires (lax clock: sum of the per-step delays)
	cum := int64(0)
	for k, sv := range u.sch {
		id := int(vals[sv].I)
		if id == u.stutter {
			break
		}
		at := ""
		if b.clock == 1 && k < len(u.stepInputs) && len(u.stepInputs[k]) > 0 {
			d := u.stepInputs[k][len(u.stepInputs[k])-1]
			if dv, err := b.s.Values([]*term.T{d}); err == nil {
				cum += int64(dv[d].V)
			}
			at = fmt.Sprintf(" @t=%d", cum)
		}
		if id < len(b.trans) {
			v.Trace = append(v.Trace, fmt.Sprintf("%02d %s%s", k, b.trans[id].label, at))
			for _, c := range b.trans[id].choices {
				choiceVals[fmt.Sprintf("%s#%d", c[0], choiceCnt[c[0]])] = c[1]
				choiceCnt[c[0]]++
			}
		} else {
			v.Trace = append(v.Trace, fmt.Sprintf("%02d clock tick", k))
		}
	}
	vars := map[*term.T]bool{}
	apps := map[*term.T]bool{}
	seenV, seenA := map[int]bool{}, map[int]bool{}
	for _, t := range u.asserted {
		term.FreeVars(t, vars, seenV)
		term.Apps(t, apps, seenA)
	}
	term.FreeVars(bad, vars, seenV)
	term.Apps(bad, apps, seenA)
	for _, in := range b.setup.inputs {
		vars[in] = true
	}
	mv, mu, err := ModelOf(b.f, b.s, vars, apps)
	if err != nil {
		b.res.Unknown = append(b.res.Unknown, "decode: "+err.Error())
		fmt.Fprintln(os.Stderr, "decode error:", err)
	}
	v.Vals, v.UFs = mv, mu
	if v.Vals == nil {
		v.Vals = map[string]string{}
	}
	for k, c := range b.setup.choiceLog {
		v.Vals[k] = c
	}
	for k, c := range choiceVals {
		v.Vals[k] = c
	}
	return v
}
