// Package term implements hash-consed, constant-folding SMT terms.
package term

import (
	"fmt"
	"math"
	"math/big"
	"sort"
	"strconv"
	"strings"
)

type Kind int

const (
	KBool Kind = iota
	KBV
	KInt
	KF64
	KF32
)

type Sort struct {
	K Kind
	W int
}

var (
	Bool = Sort{K: KBool}
	Int  = Sort{K: KInt}
	F64  = Sort{K: KF64}
	F32  = Sort{K: KF32}
)

func BV(w int) Sort { return Sort{K: KBV, W: w} }

func (s Sort) SMT() string {
	switch s.K {
	case KBool:
		return "Bool"
	case KBV:
		return fmt.Sprintf("(_ BitVec %d)", s.W)
	case KInt:
		return "Int"
	case KF64:
		return "(_ FloatingPoint 11 53)"
	case KF32:
		return "(_ FloatingPoint 8 24)"
	}
	return "?"
}

type Op int

const (
	OConst Op = iota
	OVar
	ONot
	OAnd
	OOr
	OIte
	OEq
	OAdd
	OSub
	OMul
	OUDiv
	OSDiv
	OURem
	OSRem
	OBAnd
	OBOr
	OBXor
	OShl
	OLShr
	OAShr
	OULt
	OULe
	OSLt
	OSLe
	OExtract
	OConcat
	OZExt
	OSExt
	OIAdd
	OISub
	OIMul
	OILt
	OILe
	OApp
	OFDiv
	OFMul
	OFAdd
	OFSub
	OFLt
	OFLe
	OFEq
	OFFromSBV
	OFFromUBV
	OFToSBV
	OFBits   // fp -> bv (uninterpreted-ish: encoded via fresh var + constraint; we avoid)
	OBV2Int  // bv -> Int (unsigned)
	OInt2BV  // Int -> bv
)

var opName = map[Op]string{
	ONot: "not", OAnd: "and", OOr: "or", OIte: "ite", OEq: "=",
	OAdd: "bvadd", OSub: "bvsub", OMul: "bvmul", OUDiv: "bvudiv", OSDiv: "bvsdiv", OURem: "bvurem", OSRem: "bvsrem",
	OBAnd: "bvand", OBOr: "bvor", OBXor: "bvxor", OShl: "bvshl", OLShr: "bvlshr", OAShr: "bvashr",
	OULt: "bvult", OULe: "bvule", OSLt: "bvslt", OSLe: "bvsle", OConcat: "concat",
	OIAdd: "+", OISub: "-", OIMul: "*", OILt: "<", OILe: "<=",
	OFLt: "fp.lt", OFLe: "fp.leq", OFEq: "fp.eq",
}

// T is an immutable term. Pointer equality is structural equality within one Factory.
type T struct {
	ID   int
	Op   Op
	S    Sort
	A    []*T
	Name string  // var / UF name
	V    uint64  // bv or bool constant (bool: 0/1); widths <= 64
	I    int64   // Int constant; extract: hi<<8|lo; zext/sext: extra bits
	F    float64 // float constant
	size int
}

func (t *T) IsConst() bool { return t.Op == OConst }
func (t *T) IsTrue() bool  { return t.Op == OConst && t.S.K == KBool && t.V == 1 }
func (t *T) IsFalse() bool { return t.Op == OConst && t.S.K == KBool && t.V == 0 }

// UFDecl declares an uninterpreted function.
type UFDecl struct {
	Name string
	Args []Sort
	Res  Sort
}

type Factory struct {
	htab map[uint64][]*T
	tt, ff *T
	n    int
	UFs  map[string]*UFDecl
	Vars map[string]*T
	fresh map[string]int
}

func NewFactory() *Factory {
	return &Factory{htab: map[uint64][]*T{}, UFs: map[string]*UFDecl{}, Vars: map[string]*T{}, fresh: map[string]int{}}
}

func (f *Factory) NumTerms() int { return f.n }

func mask(w int) uint64 {
	if w >= 64 {
		return ^uint64(0)
	}
	return (uint64(1) << uint(w)) - 1
}

func hashTerm(t *T) uint64 {
	h := uint64(1469598103934665603)
	mix := func(x uint64) {
		h ^= x
		h *= 1099511628211
	}
	mix(uint64(t.Op))
	mix(uint64(t.S.K)<<32 | uint64(t.S.W))
	for _, a := range t.A {
		mix(uint64(a.ID))
	}
	mix(uint64(len(t.A)))
	for i := 0; i < len(t.Name); i++ {
		mix(uint64(t.Name[i]))
	}
	mix(t.V)
	mix(uint64(t.I))
	if t.S.K == KF64 || t.S.K == KF32 {
		mix(math.Float64bits(t.F))
	}
	return h
}

func sameTerm(a, b *T) bool {
	if a.Op != b.Op || a.S != b.S || len(a.A) != len(b.A) || a.Name != b.Name || a.V != b.V || a.I != b.I {
		return false
	}
	for i := range a.A {
		if a.A[i] != b.A[i] {
			return false
		}
	}
	if a.S.K == KF64 || a.S.K == KF32 {
		return math.Float64bits(a.F) == math.Float64bits(b.F)
	}
	return true
}

func (f *Factory) intern(t *T) *T {
	h := hashTerm(t)
	for _, o := range f.htab[h] {
		if sameTerm(o, t) {
			return o
		}
	}
	f.n++
	t.ID = f.n
	t.size = 1
	for _, a := range t.A {
		t.size += a.size
		if t.size > 1<<30 {
			t.size = 1 << 30
		}
	}
	f.htab[h] = append(f.htab[h], t)
	return t
}

// ---- constants and variables

func (f *Factory) True() *T {
	if f.tt == nil {
		f.tt = f.intern(&T{Op: OConst, S: Bool, V: 1})
	}
	return f.tt
}
func (f *Factory) False() *T {
	if f.ff == nil {
		f.ff = f.intern(&T{Op: OConst, S: Bool, V: 0})
	}
	return f.ff
}
func (f *Factory) BoolC(b bool) *T {
	if b {
		return f.True()
	}
	return f.False()
}
func (f *Factory) BVC(w int, v uint64) *T {
	return f.intern(&T{Op: OConst, S: BV(w), V: v & mask(w)})
}
func (f *Factory) IntC(v int64) *T { return f.intern(&T{Op: OConst, S: Int, I: v}) }
func (f *Factory) F64C(v float64) *T {
	return f.intern(&T{Op: OConst, S: F64, F: v})
}
func (f *Factory) F32C(v float64) *T {
	return f.intern(&T{Op: OConst, S: F32, F: float64(float32(v))})
}

func (f *Factory) Var(name string, s Sort) *T {
	if v, ok := f.Vars[name]; ok {
		if v.S != s {
			panic("term: variable " + name + " redeclared with another sort")
		}
		return v
	}
	v := f.intern(&T{Op: OVar, S: s, Name: name})
	f.Vars[name] = v
	return v
}

// Fresh returns the variable named base#n, n being a per-base counter that
// ResetFresh restarts (so that re-executing a path yields the same names).
func (f *Factory) Fresh(base string, s Sort) *T {
	n := f.fresh[base]
	f.fresh[base] = n + 1
	return f.Var(fmt.Sprintf("%s#%d", base, n), s)
}

// SnapshotFresh / RestoreFresh save and restore the fresh-name counters.
func (f *Factory) SnapshotFresh() map[string]int {
	c := make(map[string]int, len(f.fresh))
	for k, v := range f.fresh {
		c[k] = v
	}
	return c
}

func (f *Factory) RestoreFresh(c map[string]int) {
	f.fresh = make(map[string]int, len(c))
	for k, v := range c {
		f.fresh[k] = v
	}
}

// ResetFresh restarts fresh-name counters (used when a path is re-executed so
// that the same names are produced).
func (f *Factory) ResetFresh() { f.fresh = map[string]int{} }

func (f *Factory) DeclUF(name string, args []Sort, res Sort) *UFDecl {
	if d, ok := f.UFs[name]; ok {
		return d
	}
	d := &UFDecl{Name: name, Args: args, Res: res}
	f.UFs[name] = d
	return d
}

func (f *Factory) App(name string, res Sort, args ...*T) *T {
	as := make([]Sort, len(args))
	for i, a := range args {
		as[i] = a.S
	}
	d := f.DeclUF(name, as, res)
	if len(d.Args) != len(args) {
		panic("term: UF arity mismatch " + name)
	}
	for i := range as {
		if d.Args[i] != as[i] {
			panic("term: UF sort mismatch " + name)
		}
	}
	return f.intern(&T{Op: OApp, S: res, A: args, Name: name})
}

// ---- boolean

func (f *Factory) Not(a *T) *T {
	if a.IsConst() {
		return f.BoolC(a.V == 0)
	}
	if a.Op == ONot {
		return a.A[0]
	}
	return f.intern(&T{Op: ONot, S: Bool, A: []*T{a}})
}

func (f *Factory) And(as ...*T) *T {
	var out []*T
	seen := map[int]bool{}
	for _, a := range as {
		if a.IsFalse() {
			return a
		}
		if a.IsTrue() {
			continue
		}
		if a.Op == OAnd {
			for _, b := range a.A {
				if !seen[b.ID] {
					seen[b.ID] = true
					out = append(out, b)
				}
			}
			continue
		}
		if !seen[a.ID] {
			seen[a.ID] = true
			out = append(out, a)
		}
	}
	for _, a := range out {
		if a.Op == ONot && seen[a.A[0].ID] {
			return f.False()
		}
	}
	if len(out) == 0 {
		return f.True()
	}
	if len(out) == 1 {
		return out[0]
	}
	sort.Slice(out, func(i, j int) bool { return out[i].ID < out[j].ID })
	return f.intern(&T{Op: OAnd, S: Bool, A: out})
}

func (f *Factory) Or(as ...*T) *T {
	var out []*T
	seen := map[int]bool{}
	for _, a := range as {
		if a.IsTrue() {
			return a
		}
		if a.IsFalse() {
			continue
		}
		if a.Op == OOr {
			for _, b := range a.A {
				if !seen[b.ID] {
					seen[b.ID] = true
					out = append(out, b)
				}
			}
			continue
		}
		if !seen[a.ID] {
			seen[a.ID] = true
			out = append(out, a)
		}
	}
	for _, a := range out {
		if a.Op == ONot && seen[a.A[0].ID] {
			return f.True()
		}
	}
	if len(out) == 0 {
		return f.False()
	}
	if len(out) == 1 {
		return out[0]
	}
	sort.Slice(out, func(i, j int) bool { return out[i].ID < out[j].ID })
	return f.intern(&T{Op: OOr, S: Bool, A: out})
}

func (f *Factory) Implies(a, b *T) *T { return f.Or(f.Not(a), b) }

func (f *Factory) Ite(c, a, b *T) *T {
	if c.IsTrue() {
		return a
	}
	if c.IsFalse() {
		return b
	}
	if a == b {
		return a
	}
	if a.S != b.S {
		panic(fmt.Sprintf("term: ite sort mismatch %v vs %v", a.S, b.S))
	}
	if a.S.K == KBool {
		if a.IsTrue() && b.IsFalse() {
			return c
		}
		if a.IsFalse() && b.IsTrue() {
			return f.Not(c)
		}
		if a.IsTrue() {
			return f.Or(c, b)
		}
		if a.IsFalse() {
			return f.And(f.Not(c), b)
		}
		if b.IsTrue() {
			return f.Or(f.Not(c), a)
		}
		if b.IsFalse() {
			return f.And(c, a)
		}
	}
	if c.Op == ONot {
		return f.Ite(c.A[0], b, a)
	}
	return f.intern(&T{Op: OIte, S: a.S, A: []*T{c, a, b}})
}

func (f *Factory) Eq(a, b *T) *T {
	if a == b {
		return f.True()
	}
	if a.S != b.S {
		panic(fmt.Sprintf("term: eq sort mismatch %v vs %v (%s, %s)", a.S, b.S, f.String(a), f.String(b)))
	}
	if a.IsConst() && b.IsConst() {
		switch a.S.K {
		case KBool, KBV:
			return f.BoolC(a.V == b.V)
		case KInt:
			return f.BoolC(a.I == b.I)
		default:
			return f.BoolC(math.Float64bits(a.F) == math.Float64bits(b.F))
		}
	}
	if a.S.K == KBool {
		if a.IsTrue() {
			return b
		}
		if b.IsTrue() {
			return a
		}
		if a.IsFalse() {
			return f.Not(b)
		}
		if b.IsFalse() {
			return f.Not(a)
		}
	}
	// ite(c, k1, k2) == k  with constants folds
	if b.IsConst() && a.Op == OIte && a.A[1].IsConst() && a.A[2].IsConst() {
		return f.Ite(a.A[0], f.Eq(a.A[1], b), f.Eq(a.A[2], b))
	}
	if a.IsConst() && b.Op == OIte && b.A[1].IsConst() && b.A[2].IsConst() {
		return f.Ite(b.A[0], f.Eq(b.A[1], a), f.Eq(b.A[2], a))
	}
	if a.ID > b.ID {
		a, b = b, a
	}
	return f.intern(&T{Op: OEq, S: Bool, A: []*T{a, b}})
}

// ---- bit-vectors

func sext(w int, v uint64) int64 {
	if w >= 64 {
		return int64(v)
	}
	if v&(1<<uint(w-1)) != 0 {
		return int64(v | ^mask(w))
	}
	return int64(v)
}

func (f *Factory) bin(op Op, a, b *T) *T {
	if a.S != b.S || a.S.K != KBV {
		panic(fmt.Sprintf("term: bv op %d sort mismatch %v vs %v", op, a.S, b.S))
	}
	w := a.S.W
	if a.IsConst() && b.IsConst() {
		x, y := a.V, b.V
		var r uint64
		switch op {
		case OAdd:
			r = x + y
		case OSub:
			r = x - y
		case OMul:
			r = x * y
		case OUDiv:
			if y == 0 {
				r = mask(w)
			} else {
				r = x / y
			}
		case OURem:
			if y == 0 {
				r = x
			} else {
				r = x % y
			}
		case OSDiv:
			sx, sy := sext(w, x), sext(w, y)
			if sy == 0 {
				if sx < 0 {
					r = 1
				} else {
					r = mask(w)
				}
			} else if sy == -1 {
				r = uint64(-sx)
			} else {
				r = uint64(sx / sy)
			}
		case OSRem:
			sx, sy := sext(w, x), sext(w, y)
			if sy == 0 {
				r = x
			} else if sy == -1 {
				r = 0
			} else {
				r = uint64(sx % sy)
			}
		case OBAnd:
			r = x & y
		case OBOr:
			r = x | y
		case OBXor:
			r = x ^ y
		case OShl:
			if y >= uint64(w) {
				r = 0
			} else {
				r = x << y
			}
		case OLShr:
			if y >= uint64(w) {
				r = 0
			} else {
				r = x >> y
			}
		case OAShr:
			sx := sext(w, x)
			if y >= uint64(w) {
				if sx < 0 {
					r = mask(w)
				} else {
					r = 0
				}
			} else {
				r = uint64(sx >> y)
			}
		}
		return f.BVC(w, r)
	}
	switch op {
	case OAdd:
		if a.IsConst() && a.V == 0 {
			return b
		}
		if b.IsConst() && b.V == 0 {
			return a
		}
		// (x + c1) + c2
		if b.IsConst() && a.Op == OAdd && a.A[1].IsConst() {
			return f.bin(OAdd, a.A[0], f.BVC(w, a.A[1].V+b.V))
		}
		if a.IsConst() {
			a, b = b, a
		}
	case OSub:
		if b.IsConst() && b.V == 0 {
			return a
		}
		if a == b {
			return f.BVC(w, 0)
		}
		if b.IsConst() {
			return f.bin(OAdd, a, f.BVC(w, -b.V))
		}
	case OMul:
		if a.IsConst() && a.V == 1 {
			return b
		}
		if b.IsConst() && b.V == 1 {
			return a
		}
		if (a.IsConst() && a.V == 0) || (b.IsConst() && b.V == 0) {
			return f.BVC(w, 0)
		}
	case OBAnd:
		if a == b {
			return a
		}
		if (a.IsConst() && a.V == 0) || (b.IsConst() && b.V == 0) {
			return f.BVC(w, 0)
		}
		if a.IsConst() && a.V == mask(w) {
			return b
		}
		if b.IsConst() && b.V == mask(w) {
			return a
		}
	case OBOr:
		if a == b {
			return a
		}
		if a.IsConst() && a.V == 0 {
			return b
		}
		if b.IsConst() && b.V == 0 {
			return a
		}
	case OBXor:
		if a == b {
			return f.BVC(w, 0)
		}
		if a.IsConst() && a.V == 0 {
			return b
		}
		if b.IsConst() && b.V == 0 {
			return a
		}
	case OShl, OLShr, OAShr:
		if b.IsConst() && b.V == 0 {
			return a
		}
	}
	return f.intern(&T{Op: op, S: a.S, A: []*T{a, b}})
}

func (f *Factory) Add(a, b *T) *T  { return f.bin(OAdd, a, b) }
func (f *Factory) Sub(a, b *T) *T  { return f.bin(OSub, a, b) }
func (f *Factory) Mul(a, b *T) *T  { return f.bin(OMul, a, b) }
func (f *Factory) UDiv(a, b *T) *T { return f.bin(OUDiv, a, b) }
func (f *Factory) SDiv(a, b *T) *T { return f.bin(OSDiv, a, b) }
func (f *Factory) URem(a, b *T) *T { return f.bin(OURem, a, b) }
func (f *Factory) SRem(a, b *T) *T { return f.bin(OSRem, a, b) }
func (f *Factory) BAnd(a, b *T) *T { return f.bin(OBAnd, a, b) }
func (f *Factory) BOr(a, b *T) *T  { return f.bin(OBOr, a, b) }
func (f *Factory) BXor(a, b *T) *T { return f.bin(OBXor, a, b) }
func (f *Factory) Shl(a, b *T) *T  { return f.bin(OShl, a, b) }
func (f *Factory) LShr(a, b *T) *T { return f.bin(OLShr, a, b) }
func (f *Factory) AShr(a, b *T) *T { return f.bin(OAShr, a, b) }
func (f *Factory) Neg(a *T) *T     { return f.Sub(f.BVC(a.S.W, 0), a) }
func (f *Factory) BNot(a *T) *T    { return f.BXor(a, f.BVC(a.S.W, mask(a.S.W))) }

func (f *Factory) cmp(op Op, a, b *T) *T {
	if a.S != b.S || a.S.K != KBV {
		panic(fmt.Sprintf("term: bv cmp sort mismatch %v vs %v", a.S, b.S))
	}
	w := a.S.W
	if a.IsConst() && b.IsConst() {
		switch op {
		case OULt:
			return f.BoolC(a.V < b.V)
		case OULe:
			return f.BoolC(a.V <= b.V)
		case OSLt:
			return f.BoolC(sext(w, a.V) < sext(w, b.V))
		case OSLe:
			return f.BoolC(sext(w, a.V) <= sext(w, b.V))
		}
	}
	if a == b {
		return f.BoolC(op == OULe || op == OSLe)
	}
	return f.intern(&T{Op: op, S: Bool, A: []*T{a, b}})
}

func (f *Factory) ULt(a, b *T) *T { return f.cmp(OULt, a, b) }
func (f *Factory) ULe(a, b *T) *T { return f.cmp(OULe, a, b) }
func (f *Factory) SLt(a, b *T) *T { return f.cmp(OSLt, a, b) }
func (f *Factory) SLe(a, b *T) *T { return f.cmp(OSLe, a, b) }

func (f *Factory) Extract(hi, lo int, a *T) *T {
	w := hi - lo + 1
	if lo == 0 && w == a.S.W {
		return a
	}
	if a.IsConst() {
		return f.BVC(w, a.V>>uint(lo))
	}
	if (a.Op == OZExt || a.Op == OSExt) && hi < a.A[0].S.W {
		return f.Extract(hi, lo, a.A[0])
	}
	return f.intern(&T{Op: OExtract, S: BV(w), A: []*T{a}, I: int64(hi)<<8 | int64(lo)})
}

func (f *Factory) ZExt(w int, a *T) *T {
	if w == a.S.W {
		return a
	}
	if w < a.S.W {
		return f.Extract(w-1, 0, a)
	}
	if a.IsConst() {
		return f.BVC(w, a.V)
	}
	return f.intern(&T{Op: OZExt, S: BV(w), A: []*T{a}, I: int64(w - a.S.W)})
}

func (f *Factory) SExt(w int, a *T) *T {
	if w == a.S.W {
		return a
	}
	if w < a.S.W {
		return f.Extract(w-1, 0, a)
	}
	if a.IsConst() {
		return f.BVC(w, uint64(sext(a.S.W, a.V)))
	}
	return f.intern(&T{Op: OSExt, S: BV(w), A: []*T{a}, I: int64(w - a.S.W)})
}

// ---- mathematical integers (bookkeeping only)

func (f *Factory) IAdd(a, b *T) *T {
	if a.IsConst() && b.IsConst() {
		return f.IntC(a.I + b.I)
	}
	if a.IsConst() && a.I == 0 {
		return b
	}
	if b.IsConst() && b.I == 0 {
		return a
	}
	if b.IsConst() && a.Op == OIAdd && a.A[1].IsConst() {
		return f.IAdd(a.A[0], f.IntC(a.A[1].I+b.I))
	}
	if a.IsConst() {
		a, b = b, a
	}
	return f.intern(&T{Op: OIAdd, S: Int, A: []*T{a, b}})
}
func (f *Factory) ISub(a, b *T) *T {
	if a.IsConst() && b.IsConst() {
		return f.IntC(a.I - b.I)
	}
	if b.IsConst() {
		return f.IAdd(a, f.IntC(-b.I))
	}
	if a == b {
		return f.IntC(0)
	}
	return f.intern(&T{Op: OISub, S: Int, A: []*T{a, b}})
}
func (f *Factory) IMul(a, b *T) *T {
	if a.IsConst() && b.IsConst() {
		return f.IntC(a.I * b.I)
	}
	return f.intern(&T{Op: OIMul, S: Int, A: []*T{a, b}})
}
func (f *Factory) ILt(a, b *T) *T {
	if a.IsConst() && b.IsConst() {
		return f.BoolC(a.I < b.I)
	}
	if a == b {
		return f.False()
	}
	return f.intern(&T{Op: OILt, S: Bool, A: []*T{a, b}})
}
func (f *Factory) ILe(a, b *T) *T {
	if a.IsConst() && b.IsConst() {
		return f.BoolC(a.I <= b.I)
	}
	if a == b {
		return f.True()
	}
	return f.intern(&T{Op: OILe, S: Bool, A: []*T{a, b}})
}

// BV2Int: unsigned value of a bit-vector as Int.
func (f *Factory) BV2Int(a *T) *T {
	if a.IsConst() {
		return f.IntC(int64(a.V))
	}
	return f.intern(&T{Op: OBV2Int, S: Int, A: []*T{a}})
}

// Int2BV: Int -> bit-vector (mod 2^w).
func (f *Factory) Int2BV(w int, a *T) *T {
	if a.IsConst() {
		return f.BVC(w, uint64(a.I))
	}
	return f.intern(&T{Op: OInt2BV, S: BV(w), A: []*T{a}})
}

// ---- floating point (only what the skip list needs)

func (f *Factory) fbin(op Op, a, b *T) *T {
	if a.IsConst() && b.IsConst() {
		x, y := a.F, b.F
		var r float64
		switch op {
		case OFDiv:
			r = x / y
		case OFMul:
			r = x * y
		case OFAdd:
			r = x + y
		case OFSub:
			r = x - y
		}
		if a.S.K == KF32 {
			return f.F32C(float64(float32(r)))
		}
		return f.F64C(r)
	}
	return f.intern(&T{Op: op, S: a.S, A: []*T{a, b}})
}
func (f *Factory) FDiv(a, b *T) *T { return f.fbin(OFDiv, a, b) }
func (f *Factory) FMul(a, b *T) *T { return f.fbin(OFMul, a, b) }
func (f *Factory) FAdd(a, b *T) *T { return f.fbin(OFAdd, a, b) }
func (f *Factory) FSub(a, b *T) *T { return f.fbin(OFSub, a, b) }
func (f *Factory) fcmp(op Op, a, b *T) *T {
	if a.IsConst() && b.IsConst() {
		switch op {
		case OFLt:
			return f.BoolC(a.F < b.F)
		case OFLe:
			return f.BoolC(a.F <= b.F)
		case OFEq:
			return f.BoolC(a.F == b.F)
		}
	}
	return f.intern(&T{Op: op, S: Bool, A: []*T{a, b}})
}
func (f *Factory) FLt(a, b *T) *T { return f.fcmp(OFLt, a, b) }
func (f *Factory) FLe(a, b *T) *T { return f.fcmp(OFLe, a, b) }
func (f *Factory) FEq(a, b *T) *T { return f.fcmp(OFEq, a, b) }

// FFromBV converts an integer bit-vector to float (RNE), as Go does.
func (f *Factory) FFromBV(s Sort, a *T, signed bool) *T {
	if a.IsConst() {
		var v float64
		if signed {
			v = float64(sext(a.S.W, a.V))
		} else {
			v = float64(a.V)
		}
		if s.K == KF32 {
			return f.F32C(float64(float32(v)))
		}
		return f.F64C(v)
	}
	op := OFFromUBV
	if signed {
		op = OFFromSBV
	}
	return f.intern(&T{Op: op, S: s, A: []*T{a}})
}

// ---- printing

func bvLit(w int, v uint64) string {
	if w%4 == 0 {
		return fmt.Sprintf("#x%0*x", w/4, v)
	}
	return fmt.Sprintf("#b%0*b", w, v)
}

func fpLit(s Sort, v float64) string {
	if s.K == KF32 {
		b := math.Float32bits(float32(v))
		return fmt.Sprintf("(fp #b%01b #b%08b #b%023b)", b>>31, (b>>23)&0xff, b&0x7fffff)
	}
	b := math.Float64bits(v)
	return fmt.Sprintf("(fp #b%01b #b%011b #b%052b)", b>>63, (b>>52)&0x7ff, b&0xfffffffffffff)
}

func smtName(n string) string { return "|" + n + "|" }

// Head returns the SMT-LIB text of t assuming every non-leaf argument is
// referred to by its name n<ID>.
func (f *Factory) Head(t *T, ref func(*T) string) string {
	switch t.Op {
	case OConst:
		switch t.S.K {
		case KBool:
			if t.V == 1 {
				return "true"
			}
			return "false"
		case KBV:
			return bvLit(t.S.W, t.V)
		case KInt:
			if t.I < 0 {
				return fmt.Sprintf("(- %d)", -t.I)
			}
			return strconv.FormatInt(t.I, 10)
		default:
			return fpLit(t.S, t.F)
		}
	case OVar:
		return smtName(t.Name)
	case OApp:
		var sb strings.Builder
		sb.WriteString("(" + smtName(t.Name))
		for _, a := range t.A {
			sb.WriteByte(' ')
			sb.WriteString(ref(a))
		}
		sb.WriteByte(')')
		return sb.String()
	case OExtract:
		return fmt.Sprintf("((_ extract %d %d) %s)", t.I>>8, t.I&0xff, ref(t.A[0]))
	case OZExt:
		return fmt.Sprintf("((_ zero_extend %d) %s)", t.I, ref(t.A[0]))
	case OSExt:
		return fmt.Sprintf("((_ sign_extend %d) %s)", t.I, ref(t.A[0]))
	case OFDiv, OFMul, OFAdd, OFSub:
		n := map[Op]string{OFDiv: "fp.div", OFMul: "fp.mul", OFAdd: "fp.add", OFSub: "fp.sub"}[t.Op]
		return fmt.Sprintf("(%s RNE %s %s)", n, ref(t.A[0]), ref(t.A[1]))
	case OFFromSBV, OFFromUBV:
		e, m := 11, 53
		if t.S.K == KF32 {
			e, m = 8, 24
		}
		fn := "to_fp"
		if t.Op == OFFromUBV {
			fn = "to_fp_unsigned"
		}
		return fmt.Sprintf("((_ %s %d %d) RNE %s)", fn, e, m, ref(t.A[0]))
	case OBV2Int:
		return fmt.Sprintf("(bv2nat %s)", ref(t.A[0]))
	case OInt2BV:
		return fmt.Sprintf("((_ int2bv %d) %s)", t.S.W, ref(t.A[0]))
	}
	n, ok := opName[t.Op]
	if !ok {
		panic(fmt.Sprintf("term: no SMT name for op %d", t.Op))
	}
	var sb strings.Builder
	sb.WriteString("(" + n)
	for _, a := range t.A {
		sb.WriteByte(' ')
		sb.WriteString(ref(a))
	}
	sb.WriteByte(')')
	return sb.String()
}

// String renders a term fully inline (for diagnostics; may be large).
func (f *Factory) String(t *T) string {
	if t.size > 400 {
		return fmt.Sprintf("<term#%d size %d>", t.ID, t.size)
	}
	var ref func(*T) string
	ref = func(a *T) string { return f.Head(a, ref) }
	return ref(t)
}

func (t *T) Size() int { return t.size }

// Subst replaces variables by terms; memo is keyed by term ID.
func (f *Factory) Subst(t *T, m map[*T]*T, memo map[int]*T) *T {
	if r, ok := memo[t.ID]; ok {
		return r
	}
	var r *T
	switch t.Op {
	case OConst:
		r = t
	case OVar:
		if x, ok := m[t]; ok {
			r = x
		} else {
			r = t
		}
	default:
		changed := false
		na := make([]*T, len(t.A))
		for i, a := range t.A {
			na[i] = f.Subst(a, m, memo)
			if na[i] != a {
				changed = true
			}
		}
		if !changed {
			r = t
		} else {
			r = f.Rebuild(t, na)
		}
	}
	memo[t.ID] = r
	return r
}

// Rebuild constructs the same operation over new arguments (re-simplifying).
func (f *Factory) Rebuild(t *T, a []*T) *T {
	switch t.Op {
	case ONot:
		return f.Not(a[0])
	case OAnd:
		return f.And(a...)
	case OOr:
		return f.Or(a...)
	case OIte:
		return f.Ite(a[0], a[1], a[2])
	case OEq:
		return f.Eq(a[0], a[1])
	case OAdd, OSub, OMul, OUDiv, OSDiv, OURem, OSRem, OBAnd, OBOr, OBXor, OShl, OLShr, OAShr:
		return f.bin(t.Op, a[0], a[1])
	case OULt, OULe, OSLt, OSLe:
		return f.cmp(t.Op, a[0], a[1])
	case OExtract:
		return f.Extract(int(t.I>>8), int(t.I&0xff), a[0])
	case OConcat:
		return f.intern(&T{Op: OConcat, S: t.S, A: a})
	case OZExt:
		return f.ZExt(t.S.W, a[0])
	case OSExt:
		return f.SExt(t.S.W, a[0])
	case OIAdd:
		return f.IAdd(a[0], a[1])
	case OISub:
		return f.ISub(a[0], a[1])
	case OIMul:
		return f.IMul(a[0], a[1])
	case OILt:
		return f.ILt(a[0], a[1])
	case OILe:
		return f.ILe(a[0], a[1])
	case OApp:
		return f.App(t.Name, t.S, a...)
	case OFDiv, OFMul, OFAdd, OFSub:
		return f.fbin(t.Op, a[0], a[1])
	case OFLt, OFLe, OFEq:
		return f.fcmp(t.Op, a[0], a[1])
	case OFFromSBV:
		return f.FFromBV(t.S, a[0], true)
	case OFFromUBV:
		return f.FFromBV(t.S, a[0], false)
	case OBV2Int:
		return f.BV2Int(a[0])
	case OInt2BV:
		return f.Int2BV(t.S.W, a[0])
	}
	panic(fmt.Sprintf("term: rebuild op %d", t.Op))
}

// FreeVars collects variables of t into out.
func FreeVars(t *T, out map[*T]bool, seen map[int]bool) {
	if seen[t.ID] {
		return
	}
	seen[t.ID] = true
	if t.Op == OVar {
		out[t] = true
		return
	}
	for _, a := range t.A {
		FreeVars(a, out, seen)
	}
}

// Apps collects UF applications of t.
func Apps(t *T, out map[*T]bool, seen map[int]bool) {
	if seen[t.ID] {
		return
	}
	seen[t.ID] = true
	if t.Op == OApp {
		out[t] = true
	}
	for _, a := range t.A {
		Apps(a, out, seen)
	}
}

// ---- evaluation under a model (used to decode counterexamples)

type Model struct {
	Vals map[string]*T            // variable name -> constant
	Apps map[string]*T            // "F(args as consts)" -> constant
}

func BigOf(t *T) *big.Int {
	if t.S.K == KInt {
		return big.NewInt(t.I)
	}
	return new(big.Int).SetUint64(t.V)
}

// SignedVal returns the Go int64 value of a bv constant interpreted as signed.
func SignedVal(t *T) int64 { return sext(t.S.W, t.V) }
