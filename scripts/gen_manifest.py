#!/usr/bin/env python3
"""Writes /verif/MANIFEST.json from the table below (kept in one place so the
manifest stays valid while checks are added)."""
import json, os

SEQ_NOTE = ("Trusted base: go/ssa lowering (x/tools v0.50.0), this repository's SSA interpreter (validated by native replay "
            "of every counterexample and by the mutation runs recorded in DESIGN.md), the SMT solvers (z3 5.1; cross-checked), "
            "and the models/stubs listed in the evidence file. Claims hold within the stated bounds only.")

BMC_NOTE = ("Trusted base: go/ssa lowering (x/tools v0.50.0); this repository's SSA interpreter and automaton extraction; the MODEL of the Go runtime (channels, select, close, context cancellation, WaitGroup, timers on a virtual clock) written from the documented semantics - checked against the real runtime only through native replay of counterexamples/witnesses under testing/synctest; the partial-order constraint (argued sound in DESIGN.md 4.4, can be switched off with VERIF_PARAMS=nopor=1); the SMT solver (z3 5.1). Claims hold for the stated bounded configurations only; generators are checked for runs of up to K steps.")

checks = {
 "C05": dict(level="model_checking",
   text="Bounded model checking of the real stage goroutines (extracted from go/ssa): the schedule, the inputs, the stage functions (uninterpreted) and Take's n are solver variables; every complete run of each bounded configuration (capacity 0..2, input length 0..3, producer goroutine or pre-filled Seq) is covered because K is raised to the completeness threshold. Consumers assert the j-th value against the list image; Final asserts counts, closure, goroutine exit.",
   technique="SSA-to-automata extraction + SMT-based bounded model checking with symbolic schedule (z3)", ref="DESIGN.md §4, §5 C05", note=BMC_NOTE),
 "C06": dict(level="model_checking",
   text="Bounded model checking of every stage under a maximally permissive environment (early close, consumers that stop, cancel at any step, all as solver choices): no panic, prefix property, and at every quiescent state closure + goroutine exit after drain or after cancel. Bounds: capacity 0..1, 1..2 inputs; generators and clocked stages for runs of up to K steps.",
   technique="SSA-to-automata extraction + SMT-based bounded model checking with symbolic schedule (z3)", ref="DESIGN.md §4, §5 C06", note=BMC_NOTE),
 "C07": dict(level="model_checking",
   text="Bounded model checking of Map/FMap under Lift/LiftF (fail-fast) and Try/TryF, Unfold and Emit under Lift: the failing set is an uninterpreted predicate E(x), so every subset of failing positions is covered by one query; values, errors (verr{x}), both consumers' interleavings and the schedule are solver variables. Fail-fast: results before the first failure, that error exactly once, nothing processed further (ghost call counter), both channels closed; Try: value stream = image of the non-failing subsequence, error stream = errors of the failing one, both in input order, both closed. Bounds: capacity 0..2, n 0..3 (4 thorough). Emit/Unfold under Try and StdErr as the reader are not covered.",
   technique="SSA-to-automata extraction + SMT-based bounded model checking with symbolic schedule and uninterpreted failure predicate (z3)", ref="DESIGN.md §4, §5 C07", note=BMC_NOTE),
 "C08": dict(level="model_checking",
   text="Bounded model checking of pipe.New's pump goroutine with its linked queue in bounded arenas (symbolic slot indices): FIFO/exactly-once, nothing invented, sender never blocks while the context is live (receiver present or absent), completed sends survive cancel, sender-side close is a clean end of stream. Bounds: capacity 0..2, 1..2 sends (3 thorough).",
   technique="SSA-to-automata extraction + SMT-based bounded model checking with symbolic schedule and arena-allocated heap (z3)", ref="DESIGN.md §4, §5 C08", note=BMC_NOTE),
 "C09": dict(level="model_checking",
   text="Bounded model checking of fork.Map/FMap/Filter/Partition/ForEach/Void with par workers (the same closure started par times), the closer goroutine and the WaitGroup: which worker gets which element and the completion order are the symbolic schedule; inputs pairwise distinct by construction, stage results tagged, boolean ghosts. At every step: no panic (send on closed channel included), every application is of a not-yet-applied input, every received value/error is the image of a not-yet-received element; at quiescence: outputs closed and goroutines gone (after drain, after cancel, also when nobody receives), nothing lost, exactly-once application, received set = image (Try: one error per failing element). Bounds: par 1..2, n 0..2, cap 0..1; the Go memory model is not modelled (races show up only as wrong interleaving results; unsynchronised shared cells of the library become separate steps).",
   technique="SSA-to-automata extraction + SMT-based bounded model checking with symbolic schedule (z3)", ref="DESIGN.md §4, §5 C09", note=BMC_NOTE),
 "C10": dict(level="model_checking",
   text="Bounded model checking of fork.Fold (workers, collector, WaitGroup) against the sequential left fold for commutative monoid families whose identity is a solver variable: a^b^e and a+b-e with symbolic e, and/all-ones, max/min; exactly one value, equal to the left fold from e, operation applied n+par times, channel closed, goroutines gone. Bounds: par 1..2 x n 0..3, par 3 x n 0; 8-bit elements (64-bit in two jobs).",
   technique="SSA-to-automata extraction + SMT-based bounded model checking with symbolic schedule and symbolic monoid identity (z3)", ref="DESIGN.md §4, §5 C10", note=BMC_NOTE),
 "C11": dict(level="model_checking",
   text="Bounded model checking of Unfold and Emit with a virtual clock that is a solver variable (lax: ticks of any size at any step; urgent: time moves only when nothing else can): exact successive sequence, index/Try skipping, at most one application per elapsed tick, j-th value not before (j+1) ticks, exactly at (j+1) ticks for a consumer that keeps up, stop and close after cancel. All runs of up to K steps.",
   technique="SSA-to-automata extraction + SMT-based bounded model checking with symbolic schedule and symbolic time (z3)", ref="DESIGN.md §4.5, §5 C11", note=BMC_NOTE),
 "C12": dict(level="model_checking",
   text="Bounded model checking of Join (copier goroutines, WaitGroup, closer): k in 0..3 inputs with their own producers or pre-filled, values tagged by input; the consumer's per-input cursor asserts order/nothing foreign/nothing twice; Invariant: closed(out) implies every input closed, drained and its producer done; Final: everything delivered, out closed, goroutines gone. Unsynchronised accesses of a cell shared by library goroutines are separate steps (so a lost update is a reachable interleaving). Bounds: k<=2 with capacities {0,1} and up to 2-3 elements in total, k=3 small.",
   technique="SSA-to-automata extraction + SMT-based bounded model checking with symbolic schedule, WaitGroup model and shared-cell steps (z3)", ref="DESIGN.md §4, §5 C12", note=BMC_NOTE),
 "C13": dict(level="model_checking",
   text="Bounded model checking of Throttling (pacer + data goroutine) with the URGENT virtual clock (synctest's rule), pre-filled input, always-ready consumer: order, exactly-once, close, and floor(i/ops)*interval <= d[i] <= floor(i/ops)*interval + interval for every element. The per-window burst bound under arbitrary arrival patterns (lax clock) is NOT established: its query did not finish (stated in DESIGN.md 17 and in the evidence).",
   technique="SSA-to-automata extraction + SMT-based bounded model checking with symbolic schedule and symbolic time (z3)", ref="DESIGN.md §4.5, §5 C13, §17", note=BMC_NOTE),
 "C16": dict(level="other",
   text="Symbolic execution (concrete structure, forked opcode programs) of duct's combinators: every well-typed program of up to 5 steps (7 thorough) over a ladder of element types is built with the real generic functions and visited by a recording visitor; the trace is compared with a specification interpreter that keeps an explicit stack of open contexts; second harness: the visitor fails at every callback position. Everything is concrete, so assertions are decided by evaluation of the real code in the interpreter (no solver query is needed): this is exhaustive enumeration of programs within the bound through the SSA interpreter, the weakest use of the technique in this suite.",
   technique="symbolic execution of go/ssa with forked program shapes (assertions decided by term normalisation)", ref="DESIGN.md §5 C16"),
 "C01": dict(level="other",
   text="Bounded symbolic execution of hseq.New/unfold + optics.NewLens/NewReflector/ForProduct1..9/ForSpectrum1..9 (real code incl. the unsafe pointer arithmetic, interpreted by a byte-offset memory model over go/types gc/amd64 layouts) on a corpus of 5 struct shapes plus a nine-type struct for the arities: every focusable field, by name and by type, Lens and Reflector; struct content between guard words and put values fully symbolic; Get/Put compared leaf by leaf with ordinary selectors (GetPut, PutGet, PutPut, same pointer). Shapes are a fixed corpus plus one depth-3 embedding skeleton in LAYOUT-SYMBOLIC mode (leaf sizes and alignments are solver variables, offsets are the terms the Go layout rule yields, and the unsafe address must be proved equal to the focus offset under every layout); values are universally quantified (mostly decided by term identity, see evidence).",
   technique="symbolic execution of go/ssa with reflect/unsafe memory model + SMT",
   ref="DESIGN.md §5 C01"),
 "C02": dict(level="other",
   text="Bounded symbolic execution of ~60 mismatching derivation requests (names, types, arities, containers, pointer embedding) and of Reflector calls with foreign dynamic argument types: each must panic at derivation / at the call and leave symbolic argument content unchanged; accepted optics go through the C01 exact-field oracle.",
   technique="symbolic execution of go/ssa with reflect/unsafe memory model + SMT",
   ref="DESIGN.md §5 C02"),
 "C03": dict(level="other",
   text="Symbolic execution of hseq.New/unfold/ForType/ForName/ForNameMaybe/New1..9/FMap/FMap1..9 over 8 corpus shapes against hand-written listings with compiler offsets (unsafe.Offsetof sums); FMapN pairing via uninterpreted functions. Structure is concrete (corpus), plus one embedding skeleton in layout-symbolic mode where RootOffs+Offset is compared with selector-derived offsets as terms over symbolic sizes/alignments; the reflect layer is a model over go/types.",
   technique="symbolic execution of go/ssa with reflect model + SMT",
   ref="DESIGN.md §5 C03"),
 "C04": dict(level="other",
   text="Bounded symbolic execution of Join (depth 1..3), Getter/Setter/BiMap (uninterpreted conversions), BiMapS/B/I/F, ForShape2..9, NewLensM, Iso and Morphism (all lists up to length 3/4 over {nil, 3 isos}) with fully symbolic contents of both structures between guard words; laws plus leaf-by-leaf 'nothing else changes'.",
   technique="symbolic execution of go/ssa with reflect/unsafe memory model + SMT",
   ref="DESIGN.md §5 C04"),
 "C14": dict(level="other",
   text="Bounded symbolic execution of trait/seq: every expression tree over the eight combinators up to depth 2 with 0..2-element leaves (depth 3 did not finish within 45 minutes and is not registered) is built from the real constructors and drained by the documented loop and by ForEach (failing at every position); element values and all predicate / mapping / flat-map behaviours are solver variables (uninterpreted functions), the result is compared with a reference list evaluator; source slices compared before/after.",
   technique="symbolic execution of go/ssa with forked expression shapes + SMT (QF_UFBV)",
   ref="DESIGN.md §5 C14"),
 "C15": dict(level="other",
   text="As C14 for trait/pair: trees over From/FromSeq/TakeWhile/DropWhile/Filter/Map/Plus/Join to depth 2, ForEach and ToSeq one level shallower, FromSeq over 0..3 plain elements; keys and values independent symbols, binary uninterpreted predicates/mappings/selectors; reference is a list of pairs, Key() and Value() read at each position.",
   technique="symbolic execution of go/ssa with forked expression shapes + SMT (QF_UFBV)",
   ref="DESIGN.md §5 C15"),
 "C17": dict(level="other",
   text="Bounded symbolic execution of pure/eq, pure/ord, pure/monoid, pure/semigroup: the Eq/Ord laws and the transparency of ContraMap/From/monoid constructors are SMT queries over all 64-bit ints, all byte strings up to the length bound (2 quick / 3 thorough) and uninterpreted base functions. Bounded (string length), not a proof.",
   technique="symbolic execution of go/ssa + SMT (QF_UFBV), symbolic bounded strings",
   ref="DESIGN.md §5 C17"),
 "C18": dict(level="other",
   text="Bounded symbolic execution of the skip list (staged copy): inductive step (one Put/Get/Remove with symbolic arguments and unconstrained Int63 from every valid shape of <=2/3 nodes, heights 1..3, three orders) plus all histories of 2/3 operations from New() and all Get/Remove histories of 4/5 operations from populated shapes; representation invariant and reference-map agreement asserted after every step. The float comparison in mkNode is rewritten to an integer threshold only after the equivalence is proved by a floating-point SMT query (cvc5).",
   technique="symbolic execution of go/ssa, inductive step over enumerated shapes + SMT (BV, FP lemma via cvc5)",
   ref="DESIGN.md §5 C18"),
 "C19": dict(level="other",
   text="Bounded symbolic execution of internal/seq list and slice traits side by side with a reference: all Cons/Tail scripts up to the step bound over two live registers, all element values, uninterpreted non-commutative fold monoid with symbolic identity; persistence is checked by re-reading every live register after every step.",
   technique="symbolic execution of go/ssa with forked op scripts + SMT (QF_UFBV)",
   ref="DESIGN.md §5 C19"),
 "C20": dict(level="other",
   text="Bounded symbolic execution of the real PipeN bodies (go/ssa) with N distinct uninterpreted functions and a symbolic argument; the SMT solver decides result == f_N(...f_1(a)) and exact call counts for every N in 2..20 (the whole API). Not a proof: decided per arity by congruence closure, no induction over N.",
   technique="symbolic execution of go/ssa + SMT (QF_UFBV), uninterpreted functions",
   ref="DESIGN.md §5 C20"),
}

# additions made after the second round of seeded changes (DESIGN.md section 16)
extra = {
 "C01": " Added later: a sixth shape with the same Go field name and type in two value-embedded structs told apart by hseq tags (both derived in one run), and a model of sync.Map so that memoising derivations are executed rather than rejected.",
 "C02": " Added later: an embedded pointer as the FIRST field of the container (offset 0).",
 "C03": " Added later: a diamond shape (one struct type embedded through two different paths).",
 "C04": " BiMapS/B/I/F are derived by name for the SECOND field of their type.",
 "C06": " Added later: Emit over a Try function failing on an uninterpreted set, with a bounded-liveness assertion standing in for termination (once cancelled and with both consumers stopped, at most cap(out)+cap(errors)+1 further applications).",
 "C07": " Added later: fail-fast stages fed by a producer that never closes its channel (the stage must close at the failure, not when the input ends).",
 "C08": " Added later: bursts of 2 (thorough: 3) sends completed into the buffer before the pump first runs, cancel at any step.",
 "C09": " ForEach is also run with Try/Lift of a function failing on an uninterpreted set (the outcome is ignored as in pipe.ForEach: every element still applied once).",
 "C10": " The carriers are value types (uint8/int): a monoid whose Combine mutates a reference-typed argument in place is outside the claim.",
 "C12": " One configuration calls Join with a spread slice that the caller overwrites right after the call.",
 "C13": " Includes ops=2 with an interval that ops does not divide, and ops=2 over two full rounds (n=4).",
 "C14": " Added later: the depth-3 trees along the left spine (right operand of every Plus a leaf, leaves of 0..1 elements, Join(Join(..)) excluded).",
 "C17": " monoid.From is also applied to already-built monoids; ord.String implementations that iterate over runes are executed with exact symbolic UTF-8 decoding.",
}
BMC_EXTRA = (" Goroutines started by goroutines, channels made inside goroutines and goroutine-local non-scalar cells are supported within stated model limits "
             "(one live instance per go statement unless raised, one execution per make(chan) site); exceeding a limit makes the job INCONCLUSIVE, never a violation. "
             "Counterexamples are minimised (shortest run, punctual wake-ups) before the native replay.")
for k, v in extra.items():
    checks[k]["text"] += v
for k, c in checks.items():
    if c.get("note") is BMC_NOTE:
        c["note"] = BMC_NOTE + BMC_EXTRA

not_built = {}
props = [json.loads(l) for l in open("/verif/properties.jsonl")]
m = {
 "version": 1,
 "setup_cmd": "sh scripts/setup.sh",
 "hooks": {
   "guard": "verif",
   "enable": "no hooks are needed: harness files are injected into the /repo packages with go/packages overlays (and go test -overlay for replays); /repo contains no guarded code",
   "baseline_off_cmd": "sh scripts/baseline_off.sh",
   "source_commits": [],
   "add_only": True,
 },
 "engines": [{"name": "vcheck", "path": "engine/", "serves_properties": sorted(checks), "kind_free_text": "SSA symbolic executor + bounded model checker over SMT (z3/cvc5), written for this task"}],
 "checks": [],
 "not_applicable": [],
 "notes": "See DESIGN.md. Exit 0 = held within bounds (KNOWN-FINDING lines possible); exit 1 + VIOLATION = replayed counterexample; exit 2 + INCONCLUSIVE = solver unknown / unsupported construct / unreproduced counterexample (never reported as success).",
}
for p in props:
    i = p["id"]
    if i in checks:
        c = checks[i]
        m["checks"].append({
          "property_id": i,
          "quick_cmd": "./bin/vcheck --tier quick %s" % i,
          "thorough_cmd": "./bin/vcheck --tier thorough %s" % i,
          "evidence_file": "/verif/evidence/%s.json" % i,
          "replay_cmd_template": "sh {path}/replay.sh",
          "engine": "vcheck",
          "level_claimed": {"category": c["level"], "text": c["text"], "design_ref": c["ref"]},
          "level_note": c.get("note", SEQ_NOTE),
          "technique": c["technique"],
        })
    else:
        m["not_applicable"].append({"property_id": i, "reason": not_built.get(i, "check not built yet in this session (work in progress; planned per DESIGN.md §5)")})
json.dump(m, open("/verif/MANIFEST.json", "w"), indent=1)
print("checks:", len(m["checks"]), "not_applicable:", len(m["not_applicable"]))
