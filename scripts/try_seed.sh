#!/bin/sh
# usage: try_seed.sh <property> <patch.diff> [extra vcheck args]
# applies a seeded change to /repo, runs the quick check, and undoes the change.
id=$1; patch=$2; shift 2
git -C /repo apply "$patch" || exit 3
/verif/bin/vcheck "$@" $id > /tmp/try_seed.out 2>&1; rc=$?
git -C /repo checkout -- . 
head -c 1500 /tmp/try_seed.out | cut -c1-220 | head -8
echo "exit=$rc"
