#!/bin/sh
# usage: try_seed.sh <property> <patch.diff> [extra vcheck args]
# applies a seeded change to a PRIVATE COPY of /repo, runs the check on it, removes the copy.
id=$1; patch=$2; shift 2
d=$(mktemp -d /tmp/repo_seed.XXXXXX)
cp -r /repo/. $d/
git -C $d apply "$patch" || { rm -rf $d; exit 3; }
/verif/bin/vcheck -repo $d "$@" $id > $d.out 2>&1; rc=$?
rm -rf $d
head -c 2500 $d.out | cut -c1-220 | head -8
rm -f $d.out
echo "exit=$rc"
