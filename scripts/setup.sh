#!/bin/sh
# Builds the engine offline from files on disk only.
set -e
cd "$(dirname "$0")/../engine"
export PATH=/opt/veriftools/go1.26.8/bin:$PATH GOTOOLCHAIN=local GOFLAGS=-mod=mod GOPROXY=off
mkdir -p ../bin ../evidence
go build -o ../bin/vcheck ./cmd/vcheck
echo "vcheck built"
