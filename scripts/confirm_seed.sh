#!/bin/sh
# usage: confirm_seed.sh <ID> <mutN>
# Confirms a seeded change in the scratch worktree /tmp/wt/<ID> (never /repo):
#  (a) it applies to the current /repo HEAD, builds, and the existing suites pass;
#  (b) its demonstration fails with the change and (c) passes without it.
id=$1; mut=$2
wt=${WTROOT:-/tmp/wt}/$id; sd=${SEEDROOT:-/tmp/seed}/$id/$mut
head=$(git -C /repo rev-parse HEAD)
git -C $wt checkout -q --detach $head 2>/dev/null; git -C $wt checkout -q -- . ; git -C $wt clean -fdq
patch=$sd/patch.diff; [ -f $sd/patch.rebased.diff ] && patch=$sd/patch.rebased.diff
cmd=$(python3 -c "import json;print(json.load(open('$sd/meta.json'))['demo_cmd'])")
export GOFLAGS=-mod=mod GOPROXY=off
res="$id/$mut patch=$(basename $patch)"
if ! git -C $wt apply $patch 2>/dev/null; then echo "$res APPLY-FAILED"; exit 1; fi
suite=ok
for m in duct hseq optics pure trait pipe; do
  (cd $wt/$m && go build ./... >/dev/null 2>&1 && go test -vet=off -count=1 -skip 'TestThrottling|TestFMap/Cancel' ./... >${SEEDROOT:-/tmp/seed}/$id.$mut.$m.log 2>&1) || suite="FAIL($m)"
done
(cd $wt && sh -c "$cmd" >${SEEDROOT:-/tmp/seed}/$id.$mut.demo_with.log 2>&1) && with=pass || with=fail
git -C $wt checkout -q -- . ; 
(cd $wt && sh -c "$cmd" >${SEEDROOT:-/tmp/seed}/$id.$mut.demo_without.log 2>&1) && without=pass || without=fail
git -C $wt checkout -q -- . ; git -C $wt clean -fdq
echo "$res suite=$suite demo_with_patch=$with demo_without_patch=$without"
