#!/bin/sh
# Runs the repository's own test suite with no verification hooks (there are
# none: harnesses are injected through overlays, /repo carries no guarded code).
rc=0
for m in duct hseq optics pipe pure trait; do
  (cd /repo/$m && GOFLAGS=-mod=mod go test -vet=off -count=1 -timeout 25m ./...) || rc=1
done
exit $rc
